module github.com/Vedant9500/WTF/verifharness

go 1.25.5

require github.com/Vedant9500/WTF v0.0.0

require (
	github.com/sahilm/fuzzy v0.1.1
	github.com/spf13/cobra v1.9.1
	gopkg.in/yaml.v3 v3.0.1
)

replace github.com/Vedant9500/WTF => /repo
