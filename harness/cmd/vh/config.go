package main

import (
	"flag"
	"fmt"
	"os"
	"path/filepath"
	"strings"

	"github.com/Vedant9500/WTF/internal/config"
)

func init() { commands["config-random"] = configRandom }

type cfgEv struct {
	Op            string   `json:"op"`
	Tr            int      `json:"tr"`
	Name          string   `json:"name"`
	Configured    string   `json:"configured"`
	Exist         []string `json:"exist"`
	Got           string   `json:"got"`
	Max           int      `json:"max"`
	DB            string   `json:"db"`
	OK            bool     `json:"ok"`
	Cache         bool     `json:"cache"`
	PersonalUnder bool     `json:"personalunder"`
	DirUnder      bool     `json:"dirunder"`
	IsDir         bool     `json:"isdir"`
	Again         bool     `json:"again"`
	Blocked       bool     `json:"blocked"`
	Kind          string   `json:"kind,omitempty"`
}

// configRandom: the real config.Config in a scratch working directory - files of the fall-back list appear and disappear
// (as files or as directories), the configured name changes, and every answer of GetDatabasePath is recorded together
// with what os.Stat says about each candidate at that moment; Validate, DefaultConfig and EnsureConfigDir on the side.
func configRandom(args []string) int {
	fs := flag.NewFlagSet("config-random", flag.ExitOnError)
	out := fs.String("out", "", "trace")
	ntr := fs.Int("traces", 100, "traces")
	length := fs.Int("len", 40, "operations per trace")
	fs.Parse(args)
	r := seededRand(404)
	w := newTraceWriter(*out)
	fallbacks := []string{"/usr/local/share/wtf/commands.yml", "/usr/share/wtf/commands.yml", "assets/commands.yml",
		"commands.yml", "internal/database/commands.yml", "commands_fixed.yml"}
	local := fallbacks[2:]
	home0, cwd0 := os.Getenv("HOME"), mustGetwd()
	defer func() { os.Setenv("HOME", home0); os.Chdir(cwd0) }()
	for t := 1; t <= *ntr; t++ {
		dir, err := os.MkdirTemp("", "vh-config-")
		if err != nil {
			fatal("mkdtemp: %v", err)
		}
		if dir, err = filepath.EvalSymlinks(dir); err != nil {
			fatal("evalsymlinks: %v", err)
		}
		if err := os.Chdir(dir); err != nil {
			fatal("chdir: %v", err)
		}
		os.Setenv("HOME", filepath.Join(dir, "home"))
		confs := []string{"assets/commands.yml", "custom.yml", "sub/custom.yml", "commands.yml", filepath.Join(dir, "abs.yml"), "", "commands_fixed.yml", "./commands.yml"}
		cfg := config.DefaultConfig()
		if r.Intn(3) > 0 {
			cfg.DatabasePath = confs[r.Intn(len(confs))]
		}
		emit := func(e *cfgEv) {
			e.Tr = t
			if e.Exist == nil {
				e.Exist = []string{}
			}
			w.emit(e)
		}
		emit(&cfgEv{Op: "begin", Configured: cfg.DatabasePath})
		for _, n := range fallbacks[:2] { // whatever the machine already has at the system-wide places
			if _, err := os.Stat(n); err == nil {
				emit(&cfgEv{Op: "touch", Name: n, Kind: "preexisting"})
			}
		}
		names := append(append([]string{}, local...), confs...)
		for i := 0; i < *length; i++ {
			switch x := r.Intn(100); {
			case x < 30:
				n := names[r.Intn(len(names))]
				if n == "" {
					continue
				}
				if _, err := os.Lstat(n); err == nil {
					continue
				}
				os.MkdirAll(filepath.Dir(n), 0o755)
				kind := "file"
				if r.Intn(5) == 0 {
					kind = "dir"
					err = os.Mkdir(n, 0o755)
				} else {
					err = os.WriteFile(n, []byte("- command: x\n"), []os.FileMode{0o644, 0o600, 0}[r.Intn(3)])
				}
				if err != nil {
					fatal("create %q: %v", n, err)
				}
				emit(&cfgEv{Op: "touch", Name: n, Kind: kind})
				if n == "commands.yml" || n == "./commands.yml" { // one file, two spellings
					other := map[string]string{"commands.yml": "./commands.yml", "./commands.yml": "commands.yml"}[n]
					emit(&cfgEv{Op: "touch", Name: other, Kind: "alias"})
				}
			case x < 45:
				n := names[r.Intn(len(names))]
				if n == "" {
					continue
				}
				if _, err := os.Lstat(n); err != nil {
					continue
				}
				if err := os.RemoveAll(n); err != nil {
					fatal("remove %q: %v", n, err)
				}
				emit(&cfgEv{Op: "rm", Name: n})
				if n == "commands.yml" || n == "./commands.yml" {
					other := map[string]string{"commands.yml": "./commands.yml", "./commands.yml": "commands.yml"}[n]
					emit(&cfgEv{Op: "rm", Name: other})
				}
			case x < 55:
				cfg.DatabasePath = confs[r.Intn(len(confs))]
				emit(&cfgEv{Op: "configure", Name: cfg.DatabasePath})
			case x < 88:
				e := &cfgEv{Op: "ask", Exist: []string{}}
				seen := map[string]bool{}
				for _, n := range append([]string{cfg.DatabasePath}, fallbacks...) {
					if seen[n] {
						continue
					}
					seen[n] = true
					if _, err := os.Stat(n); err == nil {
						e.Exist = append(e.Exist, n)
					}
				}
				e.Got = cfg.GetDatabasePath()
				emit(e)
			case x < 94:
				c := *cfg
				c.MaxResults = []int{-1 << 40, -1, 0, 1, 2, 5, 99, 100, 101, 1000, 1 << 40}[r.Intn(11)]
				c.DatabasePath = []string{"", "x", " ", "assets/commands.yml", "\x00"}[r.Intn(5)]
				emit(&cfgEv{Op: "validate", Max: c.MaxResults, DB: c.DatabasePath, OK: c.Validate() == nil})
			case x < 97:
				d := config.DefaultConfig()
				home := os.Getenv("HOME") + string(filepath.Separator)
				emit(&cfgEv{Op: "defaults", Max: d.MaxResults, DB: d.DatabasePath, Cache: d.CacheEnabled,
					PersonalUnder: strings.HasPrefix(d.PersonalDBPath, home) && strings.HasPrefix(d.GetPersonalDatabasePath(), d.ConfigDir+string(filepath.Separator)),
					DirUnder:      strings.HasPrefix(d.ConfigDir, home)})
			default:
				c := *cfg
				base := filepath.Join(dir, fmt.Sprintf("cd%d", i))
				c.ConfigDir = filepath.Join(base, "a", "b")
				e := &cfgEv{Op: "ensure"}
				switch r.Intn(4) {
				case 0:
					os.MkdirAll(filepath.Join(base, "a"), 0o755) // partly there
				case 1:
					os.MkdirAll(c.ConfigDir, 0o700) // all there
				case 2:
					os.MkdirAll(base, 0o755)
					os.WriteFile(filepath.Join(base, "a"), nil, 0o644) // a file in the way
					e.Blocked = true
				}
				e.OK = c.EnsureConfigDir() == nil
				st, err := os.Stat(c.ConfigDir)
				e.IsDir = err == nil && st.IsDir()
				e.Again = c.EnsureConfigDir() == nil
				emit(e)
			}
		}
		os.Chdir(cwd0)
		os.RemoveAll(dir)
	}
	w.close()
	fmt.Printf("{\"traces\": %d, \"events\": %d}\n", *ntr, w.n)
	return 0
}

func mustGetwd() string {
	d, err := os.Getwd()
	if err != nil {
		fatal("getwd: %v", err)
	}
	return d
}
