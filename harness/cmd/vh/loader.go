package main

import (
	"bufio"
	"bytes"
	"encoding/json"
	"flag"
	"fmt"
	"os"
	"os/exec"
	"path/filepath"
	"strings"
	"syscall"
	"time"
	"unicode/utf16"

	"github.com/Vedant9500/WTF/internal/database"
	"github.com/Vedant9500/WTF/internal/recovery"
)

func init() {
	commands["loader-run"] = loaderRun
	commands["loader-child"] = loaderChild
	commands["loader-cli"] = loaderCLI
}

// (only the two locations the program's own messages and README name: ./commands.yml and ./assets/commands.yml)
// loaderCLI: which database a search of the real binary ends up with when the configured path does not exist but one of
// the documented fall-back locations (relative to the working directory) holds a good file; with and without a notebook
func loaderCLI(args []string) int {
	fs := flag.NewFlagSet("loader-cli", flag.ExitOnError)
	out := fs.String("out", "", "trace")
	fs.Parse(args)
	w := newTraceWriter(*out)
	defer os.RemoveAll(tmpDir())
	tr := 1000000 // (trace ids of their own, apart from the loader scenarios)
	for _, layout := range []string{"commands.yml", "assets/commands.yml"} {
		for _, dbflag := range []string{"none", "missing", "dotdot", "big"} {
			for _, notebook := range []bool{false, true} {
				tr++
				home := filepath.Join(tmpDir(), fmt.Sprintf("clihome%d", tr))
				cwd := filepath.Join(home, "work")
				os.MkdirAll(filepath.Join(cwd, filepath.Dir(layout)), 0o755)
				os.WriteFile(filepath.Join(cwd, layout), []byte("- command: \"zqmainmark --run\"\n  description: \"Marker of the main file\"\n  keywords: [\"zqmainmark\"]\n"+mainYAML), 0o644)
				if notebook {
					os.MkdirAll(filepath.Join(home, ".config", "cmd-finder"), 0o755)
					os.WriteFile(filepath.Join(home, ".config", "cmd-finder", "personal.yml"),
						[]byte("- command: \"zqpersmark --run\"\n  description: \"Marker of the notebook\"\n  keywords: [\"zqpersmark\"]\n"), 0o644)
				}
				run := func(marker string) bool {
					runCwd := cwd
					argv := []string{"search", "--format", "json", "--limit", "5", "--all-platforms"}
					switch dbflag {
					case "missing":
						argv = append(argv, "--database", filepath.Join(home, "no-such-dir", "commands.yml"))
					case "dotdot": // the good file named through a parent-directory step, run from a directory with no database near it
						runCwd = filepath.Join(home, "emptywork")
						os.MkdirAll(runCwd, 0o755)
						argv = append(argv, "--database", runCwd+"/../work/"+layout)
					case "big": // a good file of more than nine megabytes (a long comment header, then the entries)
						bigF := filepath.Join(home, "big-commands.yml")
						if _, err := os.Stat(bigF); err != nil {
							var bb bytes.Buffer
							for bb.Len() < 9<<20 {
								bb.WriteString("# generated header line, kept for the record of where these commands came from ......................\n")
							}
							bb.WriteString("- command: \"zqmainmark --run\"\n  description: \"Marker of the main file\"\n  keywords: [\"zqmainmark\"]\n" + mainYAML)
							os.WriteFile(bigF, bb.Bytes(), 0o644)
						}
						argv = append(argv, "--database", bigF)
					}
					argv = append(argv, "--", marker)
					cmd := exec.Command(os.Getenv("VERIF_WTF"), argv...)
					cmd.Dir = runCwd
					cmd.Env = []string{"HOME=" + home, "XDG_CONFIG_HOME=" + filepath.Join(home, ".config"), "PATH=/usr/bin:/bin", "NO_COLOR=1"}
					b, _ := cmd.CombinedOutput()
					items, _ := parseJSONBlock(string(b))
					for _, it := range items {
						if strings.HasPrefix(it.Command, marker) {
							return true
						}
					}
					return false
				}
				ev := map[string]interface{}{"op": "clipath", "tr": tr, "layout": layout, "dbflag": dbflag, "haspers": notebook,
					"found": run("zqmainmark"), "foundpers": notebook && run("zqpersmark")}
				w.emit(ev)
			}
		}
	}
	w.close()
	fmt.Printf("{\"cli_runs\": %d}\n", tr-1000000)
	return 0
}

type loaderCfg struct {
	Main     string  `json:"main"`
	Personal string  `json:"personal"`
	Backup   string  `json:"backup"`
	MaxAtt   int     `json:"maxatt"`
	BaseUS   int     `json:"base"` // microseconds
	Factor   float64 `json:"factor"`
	CapUS    int     `json:"cap"` // microseconds
	Dir      string  `json:"dir"`
	Tr       int     `json:"tr"`
	Heal     int     `json:"heal"`  // k >= 1: the failing file is repaired during the wait after attempt k
	Reuse    bool    `json:"reuse"` // load through the recovery object of the previous scenario (same retry configuration)
}

const mainYAML = `- command: "ls -la"
  description: "List directory contents in long format"
  keywords: ["list", "directory"]
- command: "tar -czf a.tgz dir"
  description: "Compress a directory"
  keywords: ["compress", "archive"]
- command: "grep -r pattern ."
  description: "Search recursively"
  keywords: ["search", "find"]
`
const personalYAML = `- command: "my-backup.sh"
  description: "Personal backup of the list directory"
  keywords: ["backup"]
- command: "deploy now"
  description: "Deploy"
  keywords: ["deploy"]
`

var materialised int

func materialise(path, fault, content string) {
	materialised++
	switch fault {
	case "ok":
		// every third good file is reached through a symbolic link (what dotfile managers create), relative or absolute
		if materialised%3 == 0 {
			real := path + ".real"
			os.WriteFile(real, []byte(content), 0o644)
			target := real
			if materialised%2 == 0 {
				target = filepath.Base(real)
			}
			if err := os.Symlink(target, path); err == nil {
				return
			}
		}
		os.WriteFile(path, []byte(content), 0o644)
	case "empty":
		os.WriteFile(path, nil, 0o644)
	case "utf16": // the same entries, saved as UTF-16 (little endian) with a byte-order mark
		u := utf16.Encode([]rune("\ufeff" + content))
		b := make([]byte, 0, 2*len(u))
		for _, x := range u {
			b = append(b, byte(x), byte(x>>8))
		}
		os.WriteFile(path, b, 0o644)
	case "malformed":
		os.WriteFile(path, []byte("- command: [unclosed\n  description: : :\n\t- x"), 0o644)
	case "isdir":
		os.Mkdir(path, 0o755)
	case "perm":
		os.WriteFile(path, []byte(content), 0o000)
		os.Chmod(path, 0o000)
	case "missing":
	}
}

// loaderRun (root): materialises every scenario, then runs them all in one child with dropped privileges.
func loaderRun(args []string) int {
	fs := flag.NewFlagSet("loader-run", flag.ExitOnError)
	in := fs.String("in", "", "scenarios (json lines)")
	out := fs.String("out", "", "trace")
	fs.Parse(args)
	base, err := os.MkdirTemp("", "vh-loader")
	if err != nil {
		fatal("%v", err)
	}
	defer func() {
		filepath.Walk(base, func(p string, info os.FileInfo, err error) error { os.Chmod(p, 0o755); return nil })
		os.RemoveAll(base)
	}()
	os.Chmod(base, 0o755)
	var list []loaderCfg
	n := 0
	readJSONLines(*in, func(raw []byte) {
		var c loaderCfg
		if err := json.Unmarshal(raw, &c); err != nil {
			fatal("bad scenario: %v", err)
		}
		n++
		c.Tr = n
		c.Dir = filepath.Join(base, fmt.Sprintf("s%d", n))
		os.Mkdir(c.Dir, 0o755)
		if c.Heal > 0 {
			os.Chmod(c.Dir, 0o777) // the unprivileged child repairs a file here
		}
		materialise(filepath.Join(c.Dir, "commands.yml"), c.Main, mainYAML)
		materialise(filepath.Join(c.Dir, "personal.yml"), c.Personal, personalYAML)
		if c.Backup != "" {
			materialise(filepath.Join(c.Dir, "commands.yml.backup"), c.Backup, mainYAML)
		}
		list = append(list, c)
	})
	of, err := os.Create(*out)
	if err != nil {
		fatal("%v", err)
	}
	defer of.Close()
	// the unprivileged child must be able to reach the binary: copy it next to the scenarios
	self, _ := os.Executable()
	if b, err := os.ReadFile(self); err == nil {
		cp := filepath.Join(base, "vh-child")
		if os.WriteFile(cp, b, 0o755) == nil {
			os.Chmod(cp, 0o755)
			self = cp
		}
	}
	cmd := exec.Command(self, "loader-child")
	cmd.SysProcAttr = &syscall.SysProcAttr{Credential: &syscall.Credential{Uid: 65534, Gid: 65534}}
	cmd.Dir = base
	cmd.Env = []string{"HOME=" + base}
	stdin, _ := cmd.StdinPipe()
	cmd.Stdout = of
	cmd.Stderr = os.Stderr
	if err := cmd.Start(); err != nil {
		fatal("cannot start unprivileged child: %v", err)
	}
	enc := json.NewEncoder(stdin)
	for _, c := range list {
		enc.Encode(c)
	}
	stdin.Close()
	if err := cmd.Wait(); err != nil {
		fatal("loader child failed: %v", err)
	}
	fmt.Printf("{\"scenarios\": %d}\n", n)
	return 0
}

type loaderEv struct {
	Op       string `json:"op"`
	Main     string `json:"main"`
	Personal string `json:"personal"`
	MaxAtt   int    `json:"maxatt"`
	Cap      int    `json:"cap"`
	N        int    `json:"n"`
	D        int    `json:"d"`
	Kind     string `json:"kind"`
	Err      bool   `json:"err"`
	NCmds    int    `json:"ncmds"`
	SearchOK bool   `json:"searchok"`
	Tr       int    `json:"tr"`
	Note     string `json:"note,omitempty"`
	Heal     int    `json:"heal"`
}

func loaderChild(args []string) int {
	w := bufio.NewWriterSize(os.Stdout, 1<<20)
	defer w.Flush()
	emit := func(e *loaderEv) {
		b, _ := json.Marshal(e)
		w.Write(b)
		w.WriteByte('\n')
	}
	// silence the library's own warnings on stdout
	devnull, _ := os.OpenFile(os.DevNull, os.O_WRONLY, 0)
	realStdout := os.Stdout
	_ = realStdout
	os.Stdout = devnull
	sc := bufio.NewScanner(os.Stdin)
	sc.Buffer(make([]byte, 1<<20), 1<<24)
	var dr *recovery.DatabaseRecovery
	var lastRC recovery.RetryConfig
	for sc.Scan() {
		var c loaderCfg
		if err := json.Unmarshal(sc.Bytes(), &c); err != nil {
			continue
		}
		tr := c.Tr
		emit(&loaderEv{Op: "start", Main: c.Main, Personal: c.Personal, MaxAtt: c.MaxAtt, Cap: c.CapUS, Tr: tr, Heal: c.Heal})
		effMain, effPers := c.Main, c.Personal
		loads := func(f string) bool { return f == "ok" || f == "empty" || f == "utf16" }
		recovery.VerifObserver = func(event string, attempt int, d time.Duration) {
			switch event {
			case "attempt":
				emit(&loaderEv{Op: "attempt", N: attempt, Tr: tr, Main: c.Main, Personal: c.Personal, MaxAtt: c.MaxAtt, Cap: c.CapUS})
			case "delay":
				if c.Heal >= 1 && attempt == c.Heal { // the environment repairs the file that failed
					target, content := "commands.yml", mainYAML
					if loads(c.Main) {
						target, content = "personal.yml", personalYAML
						effPers = "ok"
					} else {
						effMain = "ok"
					}
					os.RemoveAll(filepath.Join(c.Dir, target))
					os.WriteFile(filepath.Join(c.Dir, target), []byte(content), 0o644)
				}
				us := int64(d / time.Microsecond)
				if us > 2000000000 { // keep within the 32-bit integers of TLC (monotone clamp)
					us = 2000000000
				}
				if us < -2000000000 {
					us = -2000000000
				}
				emit(&loaderEv{Op: "delay", N: attempt, D: int(us), Tr: tr, Main: c.Main, Personal: c.Personal, MaxAtt: c.MaxAtt, Cap: c.CapUS})
			}
		}
		rc := recovery.RetryConfig{MaxAttempts: c.MaxAtt, BaseDelay: time.Duration(c.BaseUS) * time.Microsecond,
			MaxDelay: time.Duration(c.CapUS) * time.Microsecond, BackoffFactor: c.Factor}
		ev := &loaderEv{Op: "ret", Tr: tr, Main: c.Main, Personal: c.Personal, MaxAtt: c.MaxAtt, Cap: c.CapUS}
		func() {
			defer func() {
				if r := recover(); r != nil {
					ev.Kind, ev.Note = "panic", fmt.Sprint(r)
				}
			}()
			if !c.Reuse || dr == nil || rc != lastRC {
				dr, lastRC = recovery.NewDatabaseRecovery(rc), rc
			}
			db, err := dr.LoadDatabaseWithFallback(filepath.Join(c.Dir, "commands.yml"), filepath.Join(c.Dir, "personal.yml"))
			ev.Err = err != nil
			if db == nil {
				ev.Kind = "nil"
				return
			}
			ev.NCmds = len(db.Commands)
			ce := c
			ce.Main, ce.Personal = effMain, effPers
			ev.Kind = classifyDB(db, ce)
			func() {
				defer func() {
					if r := recover(); r != nil {
						ev.Note = "search panicked: " + fmt.Sprint(r)
					}
				}()
				db.SearchUniversal("list directory", database.SearchOptions{Limit: 5, UseFuzzy: true, UseNLP: true})
				db.SearchUniversal("zzzz", database.SearchOptions{Limit: 5, UseFuzzy: true})
				ev.SearchOK = true
			}()
		}()
		emit(ev)
	}
	return 0
}

// classifyDB: "real" iff the commands are exactly main entries followed by personal entries,
// "builtin" for any other non-empty database, "emptydb" otherwise.
func classifyDB(db *database.Database, c loaderCfg) string {
	var want []string
	if c.Main == "ok" || c.Main == "utf16" {
		want = append(want, "ls -la", "tar -czf a.tgz dir", "grep -r pattern .")
	}
	if c.Personal == "ok" || c.Personal == "utf16" {
		want = append(want, "my-backup.sh", "deploy now")
	}
	mainLoads := c.Main == "ok" || c.Main == "empty" || c.Main == "utf16"
	persLoads := c.Personal == "ok" || c.Personal == "empty" || c.Personal == "utf16" || c.Personal == "missing"
	same := len(db.Commands) == len(want)
	if same {
		for i := range want {
			if db.Commands[i].Command != want[i] {
				same = false
			}
		}
	}
	if same && mainLoads && persLoads {
		return "real"
	}
	if same && len(want) > 0 {
		return "real-unexpected" // the real content although a file is broken: cannot happen
	}
	if len(db.Commands) > 0 {
		return "builtin"
	}
	return "emptydb"
}
