package main

import (
	"encoding/json"
	"flag"
	"fmt"
	"os"
	"path/filepath"
	"regexp"
	"strings"

	"github.com/Vedant9500/WTF/internal/database"
	"github.com/Vedant9500/WTF/internal/recovery"
	"github.com/Vedant9500/WTF/internal/validation"
)

func init() { commands["cli-run"] = cliRun }

type cliScen struct {
	Sub     string `json:"sub"`
	Args    string `json:"args"`
	Query   string `json:"query"`
	Limit   string `json:"limit"`
	Format  string `json:"format"`
	Verbose bool   `json:"verbose"`
	Color   string `json:"color"`
	Plat    string `json:"plat"`
	DB      string `json:"db"`
}

type cliEv struct {
	Op        string   `json:"op"`
	Tr        int      `json:"tr"`
	Sc        cliScen  `json:"sc"`
	Argv      []string `json:"argv"`
	Exit      int      `json:"exit"`
	Crash     bool     `json:"crash"`
	NRes      int      `json:"nres"`
	Matches   bool     `json:"matches"`
	JSONOK    bool     `json:"jsonok"`
	Esc       bool     `json:"esc"`
	HistDelta int      `json:"histdelta"`
	HistLast  bool     `json:"histlast"`
	HistCount int      `json:"histcount"` // results_count of the newest history entry (-1: none)
	// the same search repeated at once with --limit 1
	Rep          bool   `json:"rep"`
	RepNRes      int    `json:"repnres"`
	RepHistLen   int    `json:"rephistlen"`
	RepHistLast  bool   `json:"rephistlast"`
	RepHistCount int    `json:"rephistcount"`
	Note         string `json:"note,omitempty"`
}

var reANSI = regexp.MustCompile(`\x1b\[[0-9;]*[A-Za-z]`)
var reListItem = regexp.MustCompile(`(?m)^(\d+)\. (.*)$`)
var reTableRow = regexp.MustCompile(`(?m)^(\d+)\s{1,3}(.{1,48})`)

func cliQuery(class string) string {
	switch class {
	case "recover":
		return "zq1 qqqqzzzz"
	case "none":
		return "qqqqzzzz"
	case "padded":
		return "  Frobnicate   WIDGET "
	case "meta":
		return "frobnicate | widget"
	case "blank":
		return "   "
	case "long":
		return strings.Repeat("frobnicate ", 91) // 1001 bytes
	}
	return "frobnicate widget"
}

var hostileNext = map[string]int{}

var hostileArgv = []string{"-", "--", "-x", "--=", "a b", "'q'", "$(id)", "`id`", "*", "~", "..", "/etc/passwd", "ünï 🚀", "\xff\xfe", "\n", strings.Repeat("A", 5000), "%s%n", "{{.}}", "", "--help", "-h", "--version"}

func cliRun(args []string) int {
	fs := flag.NewFlagSet("cli-run", flag.ExitOnError)
	in := fs.String("in", "", "scenarios")
	out := fs.String("out", "", "trace")
	fs.Parse(args)
	w := newTraceWriter(*out)
	defer os.RemoveAll(tmpDir())
	r := seededRand(17)
	mix := getCorpus("mix")
	malformed := filepath.Join(tmpDir(), "malformed.yml")
	os.WriteFile(malformed, []byte("- command: [unclosed\n  : : :\n"), 0o644)
	tr := 0
	readJSONLines(*in, func(raw []byte) {
		if raw[0] == '"' {
			var s string
			json.Unmarshal(raw, &s)
			raw = []byte(s)
		}
		var sc cliScen
		if err := json.Unmarshal(raw, &sc); err != nil {
			fatal("bad scenario: %v", err)
		}
		tr++
		// isolated home per run
		cliHome = filepath.Join(tmpDir(), fmt.Sprintf("clihome%d", tr))
		os.MkdirAll(filepath.Join(cliHome, "cwd"), 0o755)
		defer os.RemoveAll(cliHome)
		histFile := filepath.Join(cliHome, ".config", "wtf", "search_history.json")
		ev := &cliEv{Op: "run", Tr: tr, Sc: sc}
		var argv []string
		prepop := false
		var env []string
		dbPath := ""
		switch sc.DB {
		case "valid":
			dbPath = mix.file
		case "missing":
			dbPath = filepath.Join(tmpDir(), "does-not-exist.yml")
		case "malformed":
			dbPath = malformed
		}
		isSearch := sc.Sub == "search" || sc.Sub == "implicit"
		// global flags
		var flags []string
		if dbPath != "" {
			flags = append(flags, "--database", dbPath)
		}
		limitVal, limitGiven := 0, false
		switch sc.Limit {
		case "0", "1", "3", "100", "101":
			fmt.Sscan(sc.Limit, &limitVal)
			limitGiven = true
		case "neg":
			limitVal, limitGiven = -1, true
		case "abc":
			flags = append(flags, "--limit", "abc")
		}
		if limitGiven {
			flags = append(flags, fmt.Sprintf("--limit=%d", limitVal))
		}
		if sc.Format != "absent" && sc.Format != "" {
			flags = append(flags, "--format", sc.Format)
		}
		if sc.Verbose {
			flags = append(flags, "-v")
		}
		switch sc.Color {
		case "flag":
			flags = append(flags, "--no-color")
		case "env": // present, whatever its value
			noColorRuns++
			env = append(env, "NO_COLOR="+[]string{"", "1", "0", "false", "F", "no", "off", "true", "FALSE", "00"}[noColorRuns%10])
		}
		var plats []string
		allPlat, noCross := false, false
		switch sc.Plat {
		case "windows":
			flags, plats = append(flags, "--platform", "windows"), []string{"windows"}
		case "all":
			flags, allPlat = append(flags, "--all-platforms"), true
		case "nocross": // the switch on its own: the host platform without what only qualifies as cross-platform
			flags, noCross = append(flags, "--no-cross-platform"), true
		case "linuxnocross":
			flags, plats, noCross = append(flags, "--platform", "linux", "--no-cross-platform"), []string{"linux"}, true
		}
		q := cliQuery(sc.Query)
		if isSearch {
			if sc.Sub == "search" {
				argv = append(argv, "search")
			}
			argv = append(argv, flags...)
			if sc.Args == "unknownflag" {
				argv = append(argv, "--bogus-flag")
			}
			argv = append(argv, "--")
			if sc.Args == "many" && sc.Query != "blank" {
				argv = append(argv, strings.Split(q, " ")...)
			} else {
				argv = append(argv, q)
			}
		} else {
			pick := func() string { // walk through the hostile values systematically, per sub-command
				hostileNext[sc.Sub]++
				return hostileArgv[(hostileNext[sc.Sub]-1)%len(hostileArgv)]
			}
			var pos []string
			switch sc.Args {
			case "one":
				pos = []string{"frobnicate"}
			case "two":
				pos = []string{"echo hello | wc -c", "Count the bytes of hello"}
			case "many":
				pos = []string{"frobnicate", "widget", "number"}
			case "hostile": // the right number of arguments for the sub-command, with hostile values
				n := map[string]int{"save": 2, "savep": 2, "setup": 1, "wizard": 1, "alias": 1, "history": 1, "help": 1, "completion": 1, "pipeline": 1}[sc.Sub]
				if r.Intn(4) == 0 {
					n = 1 + r.Intn(3)
				}
				pos = append(pos, "--")
				for k := n; k > 0; k-- {
					pos = append(pos, pick())
				}
			case "unknownflag":
				pos = []string{"--bogus-flag", "x"}
			}
			switch sc.Sub {
			case "pipeline":
				argv = append([]string{"pipeline"}, flags...)
			case "history":
				hv := [][]string{{}, {"--top"}, {"--stats"}, {"--clear"}, {"-l", "3"}, {"--limit", "-1"}, {"-l", "-7"}, {"--limit", "0"}, {"--top", "-l", "-2"}}[r.Intn(9)]
				argv = append([]string{"history"}, hv...)
				prepop = len(hv) == 0 || hv[0] != "--clear" // the views are shown a history that holds something
			case "save":
				argv = []string{"save"}
			case "savep":
				argv = []string{"save-pipeline"}
			case "alias":
				argv = append([]string{"alias"}, [][]string{{"list"}, {"add"}, {"remove"}, {}}[r.Intn(4)]...)
			case "setup":
				argv = []string{"setup"}
			case "wizard":
				argv = []string{"wizard"}
			case "help":
				argv = []string{"help"}
			case "completion":
				argv = append([]string{"completion"}, [][]string{{"bash"}, {"zsh"}, {"fish"}, {}}[r.Intn(4)]...)
			}
			if sc.Limit == "abc" {
				argv = append(argv, "--limit", "abc")
			} else if sc.Limit == "3" {
				argv = append(argv, "--limit", "3")
			}
			if sc.Verbose {
				argv = append(argv, "-v")
			}
			if sc.Color == "env" {
				noColorRuns++
				env = append(env, "NO_COLOR="+[]string{"1", "0", "false", "f", "False"}[noColorRuns%5])
			}
			argv = append(argv, pos...)
		}
		clean := []string{}
		for _, a := range argv {
			clean = append(clean, strings.ReplaceAll(a, "\x00", "")) // argv cannot carry NUL
		}
		argv = clean
		for _, a := range argv {
			if len(a) > 60 {
				a = a[:60] + "..."
			}
			ev.Argv = append(ev.Argv, fmt.Sprintf("%q", a))
		}
		os.Remove(histFile)
		hist0 := 0
		if prepop {
			for _, pq := range []string{"frobnicate widget", "list files", "frobnicate number"} {
				runWtf([]string{"search", "--database", mix.file, "--", pq})
			}
			if b, err := os.ReadFile(histFile); err == nil {
				qs, _ := histQueries(b)
				hist0 = len(qs)
			}
		}
		outS, code, err := runWtfColor(argv, sc.Color != "default", env)
		if err != nil {
			fatal("cannot run wtf: %v", err)
		}
		ev.Exit = code
		ev.Crash = strings.Contains(outS, "panic:") || strings.Contains(outS, "goroutine 1 [") || strings.Contains(outS, "fatal error:") || code < 0 || code > 2
		if ev.Crash {
			ev.Note = lastLines(outS, 3)
			if i := strings.Index(outS, "panic:"); i >= 0 {
				ev.Note = strings.SplitN(outS[i:], "\n", 2)[0]
			}
		}
		ev.Esc = strings.Contains(outS, "\x1b")
		// history
		if b, err := os.ReadFile(histFile); err == nil {
			qs, _ := histQueries(b)
			ev.HistDelta = len(qs) - hist0
			if cq, verr := validation.ValidateQuery(strings.Join(argvQuery(argv), " ")); verr == nil && len(qs) > 0 {
				ev.HistLast = qs[len(qs)-1] == cq
			}
			ev.HistCount = histLastCount(b)
		}
		// printed results
		format := strings.ToLower(sc.Format)
		parsePrinted := func(outS string) (printed []string, jsonOK bool) {
			plain := reANSI.ReplaceAllString(outS, "")
			switch {
			case isSearch && format == "json":
				if items, ok := parseJSONBlock(plain); ok {
					jsonOK = true
					for _, it := range items {
						printed = append(printed, it.Command)
					}
				} else if strings.Contains(plain, "\n[") || strings.HasPrefix(plain, "[") {
					printed = append(printed, "unparsable")
				}
			case isSearch && format == "table":
				if i := strings.Index(plain, "----------"); i >= 0 {
					for _, m := range reTableRow.FindAllStringSubmatch(plain[i:], -1) {
						printed = append(printed, strings.TrimRight(m[2], " "))
					}
				}
			case isSearch:
				for _, m := range reListItem.FindAllStringSubmatch(plain, -1) {
					printed = append(printed, m[2])
				}
				// the list block is made of numbered lines, indented detail lines and blank lines; anything else between
				// the first result and the end of the block is not part of any result
				lines := strings.Split(plain, "\n")
				first, last := -1, -1
				for i, ln := range lines {
					if reListItem.MatchString(ln) {
						if first < 0 {
							first = i
						}
						last = i
					}
				}
				for i := first; first >= 0 && i <= last; i++ {
					ln := lines[i]
					if ln != "" && !strings.HasPrefix(ln, "   ") && !reListItem.MatchString(ln) {
						printed = append(printed, "foreign line: "+ln)
					}
				}
			}
			return
		}
		printed, jok := parsePrinted(outS)
		ev.JSONOK = jok
		ev.NRes = len(printed)
		// oracle: the engine's answer with the options the search command documents
		if isSearch && sc.DB == "valid" {
			if cq, verr := validation.ValidateQuery(strings.Join(argvQuery(argv), " ")); verr == nil {
				if lim, lerr := validation.ValidateLimit(limitVal); lerr == nil || !limitGiven {
					if !limitGiven {
						lim, _ = validation.ValidateLimit(0)
					}
					o := database.SearchOptions{Limit: lim, UseFuzzy: true, FuzzyThreshold: -30, UseNLP: true, AllPlatforms: allPlat, Platforms: plats, NoCrossPlatform: noCross,
						ContextBoosts: map[string]float64{}}
					res := mix.db.SearchUniversal(cq, o)
					if len(res) == 0 {
						func() {
							devnull, _ := os.OpenFile(os.DevNull, os.O_WRONLY, 0)
							old := os.Stdout
							os.Stdout = devnull
							defer func() { os.Stdout = old; devnull.Close() }()
							if rec, rerr := recovery.NewSearchRecovery().RecoverFromSearchFailure(cq, nil, mix.db); rerr == nil && len(rec) > 0 {
								res = rec
								if len(res) > lim {
									res = res[:lim]
								}
							}
						}()
					}
					ev.Matches = len(res) == len(printed)
					for i := range res {
						if !ev.Matches {
							break
						}
						want := res[i].Command.Command
						if format == "table" && len(want) > 48 {
							want = want[:45] + "..."
						}
						if strings.TrimRight(want, " ") != printed[i] {
							ev.Matches = false
						}
					}
					if !ev.Matches && ev.Note == "" {
						ev.Note = fmt.Sprintf("engine %d results, printed %d", len(res), len(printed))
					}
				}
			}
		}
		// the same search again at once, asking for a single result: the newest history entry must describe this run
		if isSearch && ev.HistDelta == 1 && !ev.Crash && tr%2 == 0 {
			var argv2 []string
			inserted := false
			for _, a := range argv {
				if a == "--" && !inserted {
					argv2 = append(argv2, "--limit", "1")
					inserted = true
				}
				argv2 = append(argv2, a)
			}
			out2, _, err2 := runWtfColor(argv2, sc.Color != "default", env)
			if err2 == nil {
				p2, _ := parsePrinted(out2)
				ev.Rep, ev.RepNRes, ev.RepHistCount = true, len(p2), -1
				if b, err := os.ReadFile(histFile); err == nil {
					qs, _ := histQueries(b)
					ev.RepHistLen = len(qs)
					if cq, verr := validation.ValidateQuery(strings.Join(argvQuery(argv), " ")); verr == nil && len(qs) > 0 {
						ev.RepHistLast = qs[len(qs)-1] == cq
					}
					ev.RepHistCount = histLastCount(b)
				}
			}
		}
		w.emit(ev)
		os.RemoveAll(cliHome)
	})
	w.close()
	fmt.Printf("{\"runs\": %d}\n", tr)
	return 0
}

// argvQuery: the positional arguments after "--" (the query words of a search)
func argvQuery(argv []string) []string {
	for i, a := range argv {
		if a == "--" {
			return argv[i+1:]
		}
	}
	return nil
}

var noColorRuns int

// runWtfColor is runWtf without the blanket NO_COLOR (colour switches are part of the scenario)
func runWtfColor(args []string, _ bool, extraEnv []string) (string, int, error) {
	return runWtfEnv(args, extraEnv)
}

// histLastCount: results_count of the newest entry of a history file (-1 when there is none)
func histLastCount(b []byte) int {
	var h struct {
		Entries []struct {
			ResultsCount int `json:"results_count"`
		} `json:"entries"`
	}
	if err := json.Unmarshal(b, &h); err != nil || len(h.Entries) == 0 {
		return -1
	}
	return h.Entries[len(h.Entries)-1].ResultsCount
}
