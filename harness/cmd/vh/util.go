package main

import (
	"bufio"
	"encoding/json"
	"fmt"
	"math/rand"
	"os"
	"strconv"
)

// Event is one ndjson trace line; every component uses its own field set.
type Event map[string]interface{}

type traceWriter struct {
	f *os.File
	w *bufio.Writer
	n int
}

func newTraceWriter(path string) *traceWriter {
	f, err := os.Create(path)
	if err != nil {
		fatal("create trace: %v", err)
	}
	return &traceWriter{f: f, w: bufio.NewWriterSize(f, 1<<20)}
}

func (t *traceWriter) emit(ev interface{}) {
	b, err := json.Marshal(ev)
	if err != nil {
		fatal("marshal event: %v", err)
	}
	t.w.Write(b)
	t.w.WriteByte('\n')
	t.n++
}

func (t *traceWriter) close() {
	t.w.Flush()
	t.f.Close()
}

func fatal(format string, a ...interface{}) {
	fmt.Fprintf(os.Stderr, "vh: "+format+"\n", a...)
	os.Exit(2)
}

func envInt(name string, def int) int {
	if s := os.Getenv(name); s != "" {
		if v, err := strconv.Atoi(s); err == nil {
			return v
		}
	}
	return def
}

func seededRand(salt int64) *rand.Rand {
	return rand.New(rand.NewSource(int64(envInt("VERIF_SEED", 1))*1000003 + salt))
}

// readJSONLines reads a file of JSON values, one per line.
func readJSONLines(path string, each func(raw []byte)) {
	f, err := os.Open(path)
	if err != nil {
		fatal("open %s: %v", path, err)
	}
	defer f.Close()
	sc := bufio.NewScanner(f)
	sc.Buffer(make([]byte, 1<<20), 1<<28)
	for sc.Scan() {
		b := sc.Bytes()
		if len(b) == 0 {
			continue
		}
		c := make([]byte, len(b))
		copy(c, b)
		each(c)
	}
}

func sortedInts(m []int) []int {
	out := append([]int{}, m...)
	for i := 1; i < len(out); i++ {
		for j := i; j > 0 && out[j-1] > out[j]; j-- {
			out[j-1], out[j] = out[j], out[j-1]
		}
	}
	return out
}

// clamp32 keeps an integer within what TLC's 32-bit integers hold (monotone, so order comparisons survive)
func clamp32(n int) int {
	if n > 2000000000 {
		return 2000000000
	}
	if n < -2000000000 {
		return -2000000000
	}
	return n
}
