package main

import (
	"flag"
	"fmt"
	"os"
	"sort"
	"strconv"
	"sync"
	"sync/atomic"
	"time"

	"github.com/Vedant9500/WTF/internal/cache"
	"github.com/Vedant9500/WTF/internal/database"
	"github.com/Vedant9500/WTF/internal/metrics"
)

func init() {
	commands["conc-lru"] = concLRU
	commands["conc-search"] = concSearch
}

type concEv struct {
	Kind   string `json:"kind"`
	T      int    `json:"t"`
	Op     string `json:"op"`
	K      int    `json:"k"`
	V      int    `json:"v"`
	Found  bool   `json:"found"`
	RV     int    `json:"rv"`
	N      int    `json:"n"`
	RH     int64  `json:"rh"`
	RM     int64  `json:"rm"`
	RE     int64  `json:"re"`
	Cap    int    `json:"cap"`
	CapReq int    `json:"capreq"`
	TTL    int    `json:"ttl"`
	Tr     int    `json:"tr"`
	stamp  int64
}

// concLRU records short concurrent histories on one real LRUCache.
func concLRU(args []string) int {
	fs := flag.NewFlagSet("conc-lru", flag.ExitOnError)
	out := fs.String("out", "", "trace")
	nh := fs.Int("histories", 300, "histories")
	nhot := fs.Int("hot", 0, "further tiny histories: a few goroutines store the same new key at the same moment")
	fs.Parse(args)
	r := seededRand(11)
	w := newTraceWriter(*out)
	for h := 1; h <= *nh+*nhot; h++ {
		hot := h > *nh
		capReq := 1 + r.Intn(3)
		ttl := 0
		var real time.Duration
		if r.Intn(4) == 0 {
			ttl, real = 2, 90*time.Minute
		}
		c := cache.NewLRUCache(capReq, real)
		g := 2 + r.Intn(3)
		k := 2 + r.Intn(4)
		if g == 4 && k > 4 {
			k = 4
		}
		nkeys := 2 + r.Intn(2)
		if hot {
			g, k, nkeys = 2+r.Intn(3), 1+r.Intn(2), 2
		}
		// every fourth hot history: the entries have expired, one goroutine sweeps while the others look the keys up and
		// store fresh values under them
		sweepy := hot && h%2 == 0
		if sweepy {
			capReq, ttl, real, k, g = 3, 2, 2*time.Hour+30*time.Minute, 2, 3+r.Intn(2)
			c = cache.NewLRUCache(capReq, real)
		}
		var ctr int64
		var mu sync.Mutex
		var evs []concEv
		// a few sequential operations first so that histories start from varied states
		type planned struct {
			op   string
			k, v int
		}
		plans := make([][]planned, g)
		val := 0
		for t := 0; t < g; t++ {
			for j := 0; j < k; j++ {
				val++
				ops := []string{"get", "get", "put", "put", "delete", "size", "stats"}
				plans[t] = append(plans[t], planned{ops[r.Intn(len(ops))], 1 + r.Intn(nkeys), h*1000 + val})
			}
		}
		if sweepy {
			for t := 0; t < g; t++ {
				kk := 1 + (t+h)%2
				plans[t] = []planned{{"get", kk, 0}, {"put", kk, h*1000 + 500 + t}}
			}
			plans[0] = []planned{{"sweep", 0, 0}}
			// sequential prefix by a thread of its own: store both keys, then let three hours pass
			for kk := 1; kk <= 2; kk++ {
				ce := concEv{Kind: "call", T: 6, Op: "put", K: kk, V: h*1000 + 900 + kk, Tr: h}
				ce.stamp = atomic.AddInt64(&ctr, 1)
				c.Put(strconv.Itoa(kk), ce.V)
				re := ce
				re.Kind = "ret"
				re.stamp = atomic.AddInt64(&ctr, 1)
				evs = append(evs, ce, re)
			}
			c.VerifAdvance(3 * time.Hour)
			evs = append(evs, concEv{Kind: "tick", N: 3, Tr: h, stamp: atomic.AddInt64(&ctr, 1)})
		} else if h%3 == 0 || hot { // hot start: every goroutine begins by storing the same, not yet cached key
			for t := 0; t < g; t++ {
				plans[t][0].op, plans[t][0].k = "put", 1
				if hot && k > 1 {
					plans[t][1].op = "put"
				}
			}
		}
		var start int32 // spin barrier: the goroutines leave it within a few nanoseconds of each other
		var wg sync.WaitGroup
		for t := 0; t < g; t++ {
			wg.Add(1)
			go func(t int) {
				defer wg.Done()
				for atomic.LoadInt32(&start) == 0 {
				}
				local := make([]concEv, 0, 2*k)
				for _, p := range plans[t] {
					ce := concEv{Kind: "call", T: t + 1, Op: p.op, K: p.k, V: p.v, Tr: h}
					re := concEv{Kind: "ret", T: t + 1, Op: p.op, K: p.k, V: p.v, Tr: h}
					key := strconv.Itoa(p.k)
					ce.stamp = atomic.AddInt64(&ctr, 1)
					switch p.op {
					case "get":
						v, ok := c.Get(key)
						re.Found = ok
						if ok {
							re.RV = v.(int)
						}
					case "put":
						c.Put(key, p.v)
					case "delete":
						re.Found = c.Delete(key)
					case "sweep":
						re.N = c.CleanupExpired()
					case "size":
						re.N = c.Size()
					case "stats":
						st := c.Stats()
						re.N, re.RH, re.RM, re.RE = st.Size, st.Hits, st.Misses, st.Evictions
					}
					re.stamp = atomic.AddInt64(&ctr, 1)
					local = append(local, ce, re)
				}
				mu.Lock()
				evs = append(evs, local...)
				mu.Unlock()
			}(t)
		}
		atomic.StoreInt32(&start, 1)
		finished := make(chan struct{})
		go func() { wg.Wait(); close(finished) }()
		select {
		case <-finished:
		case <-time.After(60 * time.Second): // a handful of cache operations that never return: reported, not waited for
			w.close()
			fmt.Printf("{\"histories\": %d, \"events\": %d, \"hang\": true}\n", h-1, w.n)
			os.Exit(0)
		}
		// sequential epilogue (one more thread, nothing overlaps): whatever the concurrent phase left behind must still
		// behave like the cache the specification reached - sizes, every key, evictions forced by fresh keys, every key again
		epi := []planned{{"stats", 0, 0}, {"size", 0, 0}}
		for kk := 1; kk <= nkeys; kk++ {
			epi = append(epi, planned{"get", kk, 0})
		}
		for j := 1; j <= c.Capacity(); j++ {
			val++
			epi = append(epi, planned{"put", nkeys + j, h*1000 + val}, planned{"size", 0, 0})
		}
		epi = append(epi, planned{"stats", 0, 0})
		for kk := 1; kk <= nkeys+c.Capacity(); kk++ {
			epi = append(epi, planned{"get", kk, 0})
		}
		for _, p := range epi {
			ce := concEv{Kind: "call", T: g + 1, Op: p.op, K: p.k, V: p.v, Tr: h}
			re := concEv{Kind: "ret", T: g + 1, Op: p.op, K: p.k, V: p.v, Tr: h}
			key := strconv.Itoa(p.k)
			ce.stamp = atomic.AddInt64(&ctr, 1)
			switch p.op {
			case "get":
				v, ok := c.Get(key)
				re.Found = ok
				if ok {
					re.RV = v.(int)
				}
			case "put":
				c.Put(key, p.v)
			case "size":
				re.N = c.Size()
			case "stats":
				st := c.Stats()
				re.N, re.RH, re.RM, re.RE = st.Size, st.Hits, st.Misses, st.Evictions
			}
			re.stamp = atomic.AddInt64(&ctr, 1)
			evs = append(evs, ce, re)
		}
		sort.Slice(evs, func(i, j int) bool { return evs[i].stamp < evs[j].stamp })
		w.emit(&concEv{Kind: "new", Cap: c.Capacity(), CapReq: capReq, TTL: ttl, Tr: h})
		for i := range evs {
			w.emit(&evs[i])
		}
	}
	// storm: every operation must return.  Readers of each read-only accessor run flat out against writers of every kind
	// on one small cache (nothing is recorded; a cache that stops answering is the finding - a read lock taken twice, a
	// lock kept on one path, show only when a writer arrives in between).
	if hung := lruStorm(r.Intn(1000)); hung {
		w.close()
		fmt.Printf("{\"histories\": %d, \"events\": %d, \"hang\": true}\n", *nh+*nhot, w.n)
		os.Exit(0)
	}
	w.close()
	fmt.Printf("{\"histories\": %d, \"events\": %d}\n", *nh, w.n)
	return 0
}

func lruStorm(salt int) bool {
	c := cache.NewLRUCache(4, time.Hour)
	sc := cache.NewSearchCache(4, time.Hour)
	var stop int32
	var wg sync.WaitGroup
	run := func(f func(i int)) {
		wg.Add(1)
		go func() {
			defer wg.Done()
			for i := 0; atomic.LoadInt32(&stop) == 0; i++ {
				f(i)
			}
		}()
	}
	key := func(i int) string { return strconv.Itoa((i + salt) % 7) }
	for n := 0; n < 3; n++ {
		run(func(i int) { c.Stats(); sc.Stats() })
		run(func(i int) { c.Size(); c.Capacity(); c.Keys() })
	}
	for n := 0; n < 3; n++ {
		run(func(i int) { c.Put(key(i), i); c.Get(key(i + 1)) })
	}
	run(func(i int) { c.Delete(key(i)); c.CleanupExpired() })
	run(func(i int) {
		if i%64 == 0 {
			c.Clear()
			sc.Invalidate()
		}
		sc.Put(key(i), cache.SearchOptions{}, []cache.SearchResult{{Command: "c"}})
		sc.Get(key(i+1), cache.SearchOptions{})
		sc.Size()
	})
	time.Sleep(1500 * time.Millisecond)
	atomic.StoreInt32(&stop, 1)
	finished := make(chan struct{})
	go func() { wg.Wait(); close(finished) }()
	select {
	case <-finished:
		return false
	case <-time.After(30 * time.Second):
		return true
	}
}

type csEv struct {
	Op    string `json:"op"`
	Tr    int    `json:"tr"`
	Q     string `json:"q"`
	Entry string `json:"entry"`
	Ans   int    `json:"ans"`
	Alone int    `json:"alone"`
	Panic bool   `json:"panic"`
	N     int    `json:"n"`
	Total int    `json:"total"`
	Want  int    `json:"want"`
}

// concSearch: goroutines search one loaded database directly, through the cache and through the monitor while others
// invalidate, sweep and read statistics; every answer is compared with the answer of the same search run alone.
func concSearch(args []string) int {
	fs := flag.NewFlagSet("conc-search", flag.ExitOnError)
	out := fs.String("out", "", "trace")
	rounds := fs.Int("rounds", 6, "rounds")
	gor := fs.Int("goroutines", 8, "goroutines")
	per := fs.Int("per", 30, "operations per goroutine")
	fs.Parse(args)
	r := seededRand(111)
	w := newTraceWriter(*out)
	in := newInterner()
	defer os.RemoveAll(tmpDir())
	queries := []string{"frobnicate widget", "frobnicte", "FROBNICATE", "widget number", "destroy", "zq1 qqqqzzzz", "item question", "scattered"}
	shippedQ := []string{"compress a directory", "find files by name", "git commit changes", "disk usage", "comprss fles", "list files"}
	tr := 0
	for round := 0; round < *rounds; round++ {
		corpus := "mix"
		qs := queries
		if round%3 == 2 {
			corpus, qs = "shipped", shippedQ
		}
		if round%3 == 1 { // a database with one record nothing can be searched by
			corpus = "mixblank"
		}
		if round%6 == 3 || round%6 == 0 && round > 0 { // ... with an embedding index attached: the semantic stage runs in every search
			corpus = "sem"
		}
		c := getCorpus(corpus)
		mkOpts := func() []database.SearchOptions {
			return []database.SearchOptions{{Limit: 5}, {Limit: 3, UseNLP: true}, {Limit: 7, UseFuzzy: true, UseNLP: true, FuzzyThreshold: -30},
				{Limit: 5, AllPlatforms: true}, {Limit: 5, ContextBoosts: map[string]float64{"frobnicate": 2, "git": 1.5}},
				{Limit: 5, UseNLP: true, ContextBoosts: map[string]float64{"frobnicate": 2, "git": 1.5}},
				{Limit: 6, UseNLP: true, UseFuzzy: true, ContextBoosts: map[string]float64{"docker": 2, "widget": 1.3, "file": 1.2}}}
		}
		// answers alone, first: every call with option values of its own
		alone := map[string]int{}
		for qi, q := range qs {
			for oi := range mkOpts() {
				alone[fmt.Sprint(qi, "/", oi)] = in.answerID(c, toHits(c.db.SearchUniversal(q, mkOpts()[oi])))
			}
		}
		// the goroutines share one set of option values (the boost maps included), as a server handling requests with a
		// per-project option set would
		opts := mkOpts()
		mdb := database.VerifNewMonitoredDatabase(c.db, []int{2, 5, 100}[round%3], 0)
		var monitored int64
		var mu sync.Mutex
		var evs []*csEv
		var wg sync.WaitGroup
		start := make(chan struct{})
		for g := 0; g < *gor; g++ {
			wg.Add(1)
			seed := r.Int63()
			go func(g int, seed int64) {
				defer wg.Done()
				lr := seededRand(seed)
				<-start
				var local []*csEv
				for i := 0; i < *per; i++ {
					qi, oi := lr.Intn(len(qs)), lr.Intn(len(opts))
					ev := &csEv{Op: "csearch", Q: qs[qi], Alone: alone[fmt.Sprint(qi, "/", oi)]}
					func() {
						defer func() {
							if rec := recover(); rec != nil {
								ev.Panic = true
							}
						}()
						switch x := lr.Intn(20); {
						case x < 6:
							ev.Entry = "universal"
							ev.Ans = in2(in, &mu, c, c.db.SearchUniversal(qs[qi], opts[oi]))
						case x < 11:
							ev.Entry = "cached"
							ev.Ans = in2(in, &mu, c, mdb.SearchWithOptionsAndCache(qs[qi], opts[oi]))
						case x < 16:
							ev.Entry = "monitored"
							ev.Ans = in2(in, &mu, c, mdb.SearchWithOptionsAndMonitoring(qs[qi], opts[oi]))
							atomic.AddInt64(&monitored, 1)
						case x < 17:
							ev.Op, ev.Entry = "cother", "invalidate"
							mdb.InvalidateCache()
						case x < 18:
							ev.Op, ev.Entry = "cother", "cleanup"
							mdb.CleanupExpiredCache()
						default:
							ev.Op, ev.Entry = "cother", "stats"
							mdb.GetCacheStats()
						}
					}()
					local = append(local, ev)
				}
				mu.Lock()
				evs = append(evs, local...)
				mu.Unlock()
			}(g, seed)
		}
		close(start)
		// a watchdog: operations that wait for each other for ever (lock-order or re-entrant locking slips) are an
		// observation, not an infrastructure failure - a round takes well under a second
		finished := make(chan struct{})
		go func() { wg.Wait(); close(finished) }()
		select {
		case <-finished:
		case <-time.After(90 * time.Second):
			tr++
			w.emit(&csEv{Op: "chang", Tr: tr, Entry: "concurrent searches, invalidations, sweeps and statistics reads did not finish within 90 s"})
			w.close()
			fmt.Printf("{\"rounds\": %d, \"events\": %d, \"hang\": true}\n", round, w.n)
			os.Exit(0)
		}
		tr++
		for _, e := range evs {
			e.Tr = tr
			w.emit(e)
		}
		// no metric increment lost: searches_total over both cache_hit values = number of monitored searches
		total := 0
		for _, m := range mdb.GetPerformanceReport().ApplicationMetrics {
			if m.Name == "searches_total" {
				total += int(m.Value)
			}
		}
		w.emit(&csEv{Op: "ctotal", Tr: tr, Total: total, Want: int(monitored)})
		// the option values the callers handed in are theirs: still what they were
		same, want := 0, 0
		for oi, o := range mkOpts() {
			want += len(o.ContextBoosts) + 1
			if len(opts[oi].ContextBoosts) == len(o.ContextBoosts) {
				same++
			}
			for k, v := range o.ContextBoosts {
				if opts[oi].ContextBoosts[k] == v {
					same++
				}
			}
		}
		w.emit(&csEv{Op: "coptions", Tr: tr, Total: same, Want: want})
	}
	// hot request groups: a few goroutines leave a spin barrier and ask a cold cache the same query at the same moment, under
	// option sets that differ in one field only (what request coalescing or a coarse key would confuse)
	{
		c := getCorpus("mix")
		variants := []func() database.SearchOptions{
			func() database.SearchOptions { return database.SearchOptions{Limit: 5} },
			func() database.SearchOptions {
				return database.SearchOptions{Limit: 5, ContextBoosts: map[string]float64{"widget": 3, "number": 2.5}}
			},
			func() database.SearchOptions { return database.SearchOptions{Limit: 5, PipelineBoost: 3} },
			func() database.SearchOptions { return database.SearchOptions{Limit: 5, UseNLP: true} },
			func() database.SearchOptions { return database.SearchOptions{Limit: 2} },
			func() database.SearchOptions { return database.SearchOptions{Limit: 5, PipelineOnly: true} },
		}
		hotQ := []string{"frobnicate widget", "widget number", "delete item"}
		alone := map[string]int{}
		for qi, q := range hotQ {
			for vi, mk := range variants {
				alone[fmt.Sprint(qi, "/", vi)] = in.answerID(c, toHits(c.db.SearchUniversal(q, mk())))
			}
		}
		mdb := database.VerifNewMonitoredDatabase(c.db, 50, 0)
		var mu sync.Mutex
		// meanwhile another goroutine keeps invalidating, sweeping and reading statistics (answers are not affected by that)
		var stopBg int32
		bgDone := make(chan struct{})
		go func() {
			defer close(bgDone)
			for atomic.LoadInt32(&stopBg) == 0 {
				mdb.InvalidateCache()
				mdb.CleanupExpiredCache()
				mdb.GetCacheStats()
				time.Sleep(15 * time.Microsecond)
			}
		}()
		for it := 0; it < *rounds*70; it++ {
			mdb.InvalidateCache()
			qi := r.Intn(len(hotQ))
			g := 2 + r.Intn(3)
			vis := make([]int, g)
			for i := range vis {
				vis[i] = r.Intn(len(variants))
			}
			vis[1] = (vis[0] + 1 + r.Intn(len(variants)-1)) % len(variants) // at least two different option sets
			evs := make([]*csEv, g)
			var start int32
			var wg sync.WaitGroup
			for i := 0; i < g; i++ {
				wg.Add(1)
				go func(i int) {
					defer wg.Done()
					ev := &csEv{Op: "csearch", Q: hotQ[qi], Entry: "cached", Alone: alone[fmt.Sprint(qi, "/", vis[i])]}
					evs[i] = ev
					o := variants[vis[i]]()
					for atomic.LoadInt32(&start) == 0 {
					}
					defer func() {
						if rec := recover(); rec != nil {
							ev.Panic = true
						}
					}()
					ev.Ans = in2(in, &mu, c, mdb.SearchWithOptionsAndCache(hotQ[qi], o))
				}(i)
			}
			atomic.StoreInt32(&start, 1)
			finished := make(chan struct{})
			go func() { wg.Wait(); close(finished) }()
			select {
			case <-finished:
			case <-time.After(90 * time.Second):
				tr++
				w.emit(&csEv{Op: "chang", Tr: tr, Entry: "simultaneous cached searches did not finish within 90 s"})
				w.close()
				fmt.Printf("{\"rounds\": %d, \"events\": %d, \"hang\": true}\n", *rounds, w.n)
				os.Exit(0)
			}
			tr++
			for _, e := range evs {
				e.Tr = tr
				w.emit(e)
			}
		}
		atomic.StoreInt32(&stopBg, 1)
		select {
		case <-bgDone:
		case <-time.After(90 * time.Second):
			tr++
			w.emit(&csEv{Op: "chang", Tr: tr, Entry: "cache invalidation / sweep / statistics did not return within 90 s"})
			w.close()
			fmt.Printf("{\"rounds\": %d, \"events\": %d, \"hang\": true}\n", *rounds, w.n)
			os.Exit(0)
		}
	}
	// first use of a metric series by several goroutines at once: many fresh monitors, a few records each
	for burst := 0; burst < *rounds*100; burst++ {
		pm := metrics.NewPerformanceMonitor()
		g, k := 2+r.Intn(7), 1+r.Intn(3)
		var wg sync.WaitGroup
		var start int32
		for i := 0; i < g; i++ {
			wg.Add(1)
			go func(i int) {
				defer wg.Done()
				for atomic.LoadInt32(&start) == 0 {
				}
				for j := 0; j < k; j++ {
					pm.RecordSearchOperation(time.Microsecond, 1, true, (i+j)%2*5) // (an empty query has length 0)
				}
			}(i)
		}
		atomic.StoreInt32(&start, 1)
		wg.Wait()
		total, ql := 0, 0
		for _, m := range pm.GetPerformanceReport().ApplicationMetrics {
			switch m.Name {
			case "searches_total":
				total += int(m.Value)
			case "query_length_count":
				ql += int(m.Value)
			}
		}
		tr++
		w.emit(&csEv{Op: "ctotal", Tr: tr, Total: total, Want: g * k})
		w.emit(&csEv{Op: "ctotal", Tr: tr, Total: ql, Want: g * k})
	}
	// metric bursts: many goroutines record through one monitor at full speed; no increment may be lost
	for burst := 0; burst < 4; burst++ {
		pm := metrics.NewPerformanceMonitor()
		g, k := 8, 4000
		var wg sync.WaitGroup
		start := make(chan struct{})
		for i := 0; i < g; i++ {
			wg.Add(1)
			go func(i int) {
				defer wg.Done()
				<-start
				for j := 0; j < k; j++ {
					pm.RecordSearchOperation(time.Microsecond, 1, (i+j)%2 == 0, 5)
				}
			}(i)
		}
		close(start)
		wg.Wait()
		total, hm := 0, 0
		for _, m := range pm.GetPerformanceReport().ApplicationMetrics {
			switch m.Name {
			case "searches_total":
				total += int(m.Value)
			case "cache_hits_total", "cache_misses_total":
				hm += int(m.Value)
			}
		}
		tr++
		w.emit(&csEv{Op: "ctotal", Tr: tr, Total: total, Want: g * k})
		w.emit(&csEv{Op: "ctotal", Tr: tr, Total: hm, Want: g * k})
	}
	w.close()
	fmt.Printf("{\"rounds\": %d, \"events\": %d}\n", *rounds, w.n)
	return 0
}

func in2(in *interner, mu *sync.Mutex, c *corpusT, rs []database.SearchResult) int {
	mu.Lock()
	defer mu.Unlock()
	return in.answerID(c, toHits(rs))
}
