package main

import (
	"encoding/json"
	"fmt"
	"math"
	"math/rand"
	"os"
	"os/exec"
	"path/filepath"
	"strconv"
	"strings"
	"time"
	"unicode"

	"github.com/sahilm/fuzzy"
	"gopkg.in/yaml.v3"

	"github.com/Vedant9500/WTF/internal/database"
	"github.com/Vedant9500/WTF/internal/embedding"
	"github.com/Vedant9500/WTF/internal/nlp"
	"github.com/Vedant9500/WTF/internal/recovery"
)

// ---------------------------------------------------------------------------
// corpora

type docInfo struct {
	decls     []string // declared platforms, lower-cased
	toolKnown bool     // first word is one of a few tools that are certainly recognised as cross-platform
	nonsense  bool     // first word is a made-up name: certainly not a recognised tool
	pipe      bool     // generous pipeline classification
	text      string   // what the typo matcher looks at: command + " " + description
}

type corpusT struct {
	name      string
	db        *database.Database
	info      []docInfo
	idx       map[*database.Command]int
	cmds      []database.Command // as given (before loading)
	file      string
	byContent map[string][]int
	// fresh builds another copy of a database that does not come from a file (struct literal, replaced at run time, built-in fallback)
	fresh func() *database.Database
}

// builtCorpus wraps a database that was not produced by the YAML loader
func builtCorpus(name string, mk func() *database.Database) *corpusT {
	return builtCorpus2(name, mk, mk)
}

// builtCorpus2: the long-lived database is made by mk (which may give it a history), copies for comparison by fresh
func builtCorpus2(name string, mk, fresh func() *database.Database) *corpusT {
	c := wrapCorpus(name, mk(), nil, "")
	c.fresh = fresh
	return c
}

var certainTools = map[string]bool{"git": true, "docker": true, "curl": true, "python": true, "npm": true}

func firstWord(s string) string {
	f := strings.Fields(strings.ToLower(s))
	if len(f) == 0 {
		return ""
	}
	return f[0]
}

func infoOf(c *database.Command) docInfo {
	di := docInfo{text: c.Command + " " + c.Description}
	for _, p := range c.Platform {
		di.decls = append(di.decls, strings.ToLower(p))
	}
	fw := firstWord(c.Command)
	di.toolKnown = certainTools[fw]
	di.nonsense = strings.HasPrefix(fw, "zq") || strings.Contains(fw, "zqzq") // made-up names, some beginning or ending like a real tool
	cmd := c.Command
	di.pipe = c.Pipeline || strings.Contains(cmd, "|") || strings.Contains(cmd, "&&") || strings.Contains(cmd, ">>") ||
		strings.Contains(strings.ToLower(cmd), "pipe")
	return di
}

var engineTmp string

func tmpDir() string {
	if engineTmp == "" {
		d, err := os.MkdirTemp("", "vh-engine")
		if err != nil {
			fatal("%v", err)
		}
		engineTmp = d
	}
	return engineTmp
}

var corpusSeq int

// loadCorpus writes the commands as YAML and loads them with the repository's loader (real load path).
func loadCorpus(name string, cmds []database.Command) *corpusT {
	corpusSeq++
	f := filepath.Join(tmpDir(), fmt.Sprintf("%s-%d.yml", name, corpusSeq))
	b, err := yaml.Marshal(cmds)
	if err != nil {
		fatal("yaml: %v", err)
	}
	if len(cmds) == 0 {
		b = []byte("[]\n")
	}
	if err := os.WriteFile(f, b, 0o644); err != nil {
		fatal("%v", err)
	}
	db, err := database.LoadDatabase(f)
	if err != nil {
		fatal("load synthetic corpus %s: %v", name, err)
	}
	return wrapCorpus(name, db, cmds, f)
}

func wrapCorpus(name string, db *database.Database, cmds []database.Command, file string) *corpusT {
	c := &corpusT{name: name, db: db, cmds: cmds, file: file, idx: map[*database.Command]int{}}
	for i := range db.Commands {
		c.idx[&db.Commands[i]] = i
		c.info = append(c.info, infoOf(&db.Commands[i]))
	}
	return c
}

func repoPath() string {
	if p := os.Getenv("VERIF_REPO"); p != "" {
		return p
	}
	return "/repo"
}

var shippedCache *corpusT

func shippedCorpus() *corpusT {
	if shippedCache == nil {
		f := filepath.Join(repoPath(), "assets", "commands.yml")
		db, err := database.LoadDatabase(f)
		if err != nil {
			fatal("load shipped database: %v", err)
		}
		shippedCache = wrapCorpus("shipped", db, nil, f)
	}
	return shippedCache
}

var declPalette = [][]string{nil, {"linux"}, {"bash"}, {"Linux", "macos"}, {"windows"}, {"PowerShell"}, {"Darwin"}, {"Cross-Platform"}, {"solaris"}}

// mixCorpus: one document per (declared platforms, tool, pipeline) combination, all matching "frobnicate"
// lexically and the misspelling "frobnicte" as a subsequence; plus documents that match only as a poor subsequence.
func mixCommands() []database.Command {
	var out []database.Command
	k := 0
	for _, decl := range declPalette {
		for _, tool := range []bool{false, true} {
			for pipe := 0; pipe < 3; pipe++ { // 0 none, 1 flag, 2 bar
				k++
				first := fmt.Sprintf("zq%dx", k)
				if tool {
					first = []string{"git", "docker", "curl"}[k%3]
				}
				cmd := first + " frobnicate --widget " + fmt.Sprint(k)
				if pipe == 2 {
					cmd += " | sort"
				}
				c := database.Command{Command: cmd, Description: fmt.Sprintf("Frobnicate the widget number %d", k),
					Keywords: []string{"frobnicate", "widget"}, Platform: decl, Pipeline: pipe == 1}
				if k%4 == 0 {
					c.Tags = []string{"frobnicate"}
				}
				out = append(out, c)
			}
		}
	}
	// poor subsequence matches of "frobnicte": letters far apart, no lexical token in common with the queries
	for j := 0; j < 4; j++ {
		k++
		pad := strings.Repeat("y", 3+j)
		words := []string{}
		for _, ch := range "frobnicte" {
			words = append(words, pad+string(ch)+pad)
		}
		out = append(out, database.Command{Command: fmt.Sprintf("zq%dx %s", k, strings.Join(words[:4], " ")),
			Description: strings.Join(words[4:], " "), Keywords: []string{"scattered"}, Platform: declPalette[(j*2)%len(declPalette)], Pipeline: j%2 == 0})
	}
	// documents for NLP expansions: queries made of action synonyms reach these only through NLP-added terms
	for _, w := range []string{"delete", "remove", "find", "search", "create", "make", "show", "display", "copy", "move", "install", "run", "list", "view"} {
		k++
		out = append(out, database.Command{Command: fmt.Sprintf("zq%dx %s item", k, w), Description: strings.Title(w) + " the item in question", Keywords: []string{w}}) //nolint
	}
	// typo matches that start at the very first / end at the very last character of the matched text
	// (sensitive to white space that survives at the ends of a query)
	k++
	out = append(out, database.Command{Command: "frobnicate-now", Description: "qq", Keywords: []string{"edge"}})
	k++
	out = append(out, database.Command{Command: fmt.Sprintf("zq%dx qq", k), Description: "ends with frobnicate", Keywords: []string{"edge"}})
	// printf verbs in the texts (must come out verbatim in every output format)
	k++
	out = append(out, database.Command{Command: fmt.Sprintf("zq%dx frobnicate +%%Y-%%m-%%d %%s %%d", k), Description: "Frobnicate the widget to 100%", Keywords: []string{"frobnicate", "widget", "100%"}})
	// a command and a category of few characters and many bytes (column cutting is done in one unit or the other)
	k++
	out = append(out, database.Command{Command: "frobnicate \u5727\u7e2e\u3055\u308c\u305f\u30d5\u30a1\u30a4\u30eb\u306e\u4e00\u89a7\u3092\u8868\u793a\u3059\u308b", Description: "Frobnicate the widget, spelled in Japanese",
		Keywords: []string{"frobnicate", "widget"}, Niche: "\u30d5\u30a1\u30a4\u30eb\u64cd\u4f5c\u30c4\u30fc\u30eb\u985e"})
	// decoys
	for j := 0; j < 3; j++ {
		k++
		out = append(out, database.Command{Command: fmt.Sprintf("zq%dx unrelated", k), Description: "Nothing to see here", Keywords: []string{"decoy"}})
	}
	return out
}

func tieCommands() []database.Command {
	var out []database.Command
	for j := 0; j < 12; j++ {
		// identical tokens: the serial letter is dropped by the tokeniser (one byte)
		out = append(out, database.Command{Command: "zqtie frobnicate " + string(rune('a'+j)), Description: "Frobnicate the widget " + string(rune('a'+j)),
			Keywords: []string{"frobnicate", "widget"}})
	}
	return out
}

// uniqWords: made-up words, one per entry of the "uniq" corpus; a word with one letter dropped is not a token of
// the index and occurs as a subsequence in (next to) no other entry
var uniqWords = []string{"blorptak", "cemvudiz", "dwyfnosk", "fyxgrelm", "ghulvamp", "hjenkwis", "jopmzarb", "kravdyxo", "lumqesti",
	"mwibhonc", "nyzkoplu", "pserdwaf", "quilmbex", "rhaxtovi", "sbegnuly", "tuzwimka", "vogpcyre", "wixjadum"}

// uniqCommands: two entries with very short texts first, then one entry per (declared platforms, tool) combination
func uniqCommands() []database.Command {
	out := []database.Command{{Command: "ls"}, {Command: "x", Description: "y"}}
	k := 0
	for _, decl := range declPalette {
		for _, tool := range []bool{false, true} {
			w := uniqWords[k]
			first := "zq" + fmt.Sprint(k) + "u"
			if tool {
				first = []string{"git", "docker", "curl"}[k%3]
			}
			out = append(out, database.Command{Command: first + " " + w, Description: "Entry about " + w, Keywords: []string{w}, Platform: decl})
			k++
		}
	}
	// a plain command and a longer pipeline ending alike: an inner fragment of the word matches both with a quality
	// below zero, the pipeline worse
	for _, w := range []string{"glimvarn", "trobzuki"} {
		out = append(out, database.Command{Command: "zqfa slow helper for " + w}, database.Command{Command: "zqfb slow helper for " + w + " | sort | uniq -c | head -5"})
	}
	// pipelines that contain the letters of a word far apart: worse matches than the entry of that word
	for i, w := range uniqWords[:4] {
		var parts []string
		for _, ch := range w {
			parts = append(parts, string(ch)+"yy")
		}
		out = append(out, database.Command{Command: fmt.Sprintf("zqp%du %s | sort", i, strings.Join(parts, " ")), Description: "Scattered", Keywords: []string{"scattered"}})
	}
	return out
}

// platCommands: made-up programs whose names begin or end like a recognised tool (gitzqzq3, zqzqcurl, docker-zqzq5 ...):
// none of them is that tool, so a declared foreign platform excludes them
func platCommands() []database.Command {
	var out []database.Command
	k := 0
	for _, decl := range declPalette {
		for _, tool := range []string{"git", "docker", "curl", "python", "npm", "find", "ls", "ssh"} {
			for v := 0; v < 3; v++ {
				k++
				first := []string{tool + "zqzq" + fmt.Sprint(k), "zqzq" + tool, tool + "-zqzq" + fmt.Sprint(k)}[v]
				out = append(out, database.Command{Command: first + " frobnicate --widget " + fmt.Sprint(k), Description: fmt.Sprintf("Frobnicate the widget number %d", k),
					Keywords: []string{"frobnicate", "widget"}, Platform: decl})
			}
		}
	}
	// the same command and description twice with different platforms / pipeline flags (main database + notebook produce this)
	for _, pr := range [][2][]string{{{"windows"}, {"linux"}}, {{"solaris"}, nil}, {{"linux"}, {"windows"}}} {
		k++
		for _, decl := range pr {
			out = append(out, database.Command{Command: fmt.Sprintf("zqdup%d frobnicate --widget", k), Description: "Frobnicate the widget twice", Keywords: []string{"frobnicate", "widget"}, Platform: decl})
		}
	}
	out = append(out, database.Command{Command: "zqdupp frobnicate --widget", Description: "Frobnicate the widget piped", Keywords: []string{"frobnicate", "widget"}},
		database.Command{Command: "zqdupp frobnicate --widget", Description: "Frobnicate the widget piped", Keywords: []string{"frobnicate", "widget"}, Pipeline: true})
	// commands that are no pipelines although they contain a lone '&' or '>' (background job, redirection)
	for i, cmd := range []string{"zqbg frobnicate --widget 1 &", "zqout frobnicate --widget 2 > out.txt", "zqerr frobnicate --widget 3 2>&1", "zqin frobnicate --widget 4 < in.txt"} {
		out = append(out, database.Command{Command: cmd, Description: fmt.Sprintf("Frobnicate the widget quietly %d", i), Keywords: []string{"frobnicate", "widget"}})
	}
	return out
}

// synthIndex: an 8-dimensional embedding index for the words of the synthetic queries and n commands
func synthIndex(n int, damaged bool) *embedding.Index {
	r := rand.New(rand.NewSource(77))
	dim := 8
	idx := &embedding.Index{Dimension: dim, WordVectors: map[string][]float32{}}
	vec := func() []float32 {
		v := make([]float32, dim)
		for j := range v {
			v[j] = float32(r.NormFloat64())
		}
		return v
	}
	for _, w := range []string{"frobnicate", "widget", "frobnicte", "number", "item", "delete", "find", "zq1", "qqqqzzzz"} {
		idx.WordVectors[w] = vec()
	}
	for k := 0; k < n; k++ {
		v := vec()
		if damaged {
			switch k % 5 {
			case 0:
				v[k%dim] = float32(math.NaN())
			case 1:
				v[k%dim] = float32(math.Inf(1))
			case 2:
				v[k%dim] = math.MaxFloat32
			}
		}
		idx.CmdEmbeddings = append(idx.CmdEmbeddings, v)
	}
	if damaged {
		idx.WordVectors["widget"][3] = float32(math.NaN())
	}
	return idx
}

func nearTieCommands(variant int) []database.Command {
	var out []database.Command
	ws := []string{"alphaword", "bravoword", "charlieword"}
	perms := [][3]int{{0, 1, 2}, {0, 2, 1}, {1, 0, 2}, {1, 2, 0}, {2, 0, 1}, {2, 1, 0}}
	k := 0
	for rep := 0; rep < 1+variant%3; rep++ {
		for pi := range perms {
			pm := perms[(pi*(1+variant%5)+variant)%len(perms)]
			k++
			out = append(out, database.Command{Command: fmt.Sprintf("zq%dx %s", k, ws[pm[0]]), Description: "Handles " + ws[pm[1]], Keywords: []string{ws[pm[2]]}})
		}
		for f := 0; f < variant%4+rep; f++ { // fillers shift the averages
			k++
			out = append(out, database.Command{Command: fmt.Sprintf("zq%dx filler%d", k, k), Description: fmt.Sprintf("Filler number %d about deltaword", k), Keywords: []string{"deltaword"}})
		}
	}
	return out
}

func mergedCorpus() *corpusT {
	mainF := filepath.Join(tmpDir(), "merged-main.yml")
	persF := filepath.Join(tmpDir(), "merged-personal.yml")
	var pers []database.Command
	for i := 0; i < 7; i++ {
		pers = append(pers, database.Command{Command: fmt.Sprintf("grep ERROR app%d.log | sort | uniq -c", i), Description: "errors - 3-step pipeline",
			Keywords: []string{"pipeline", "workflow", "frobnicate"}, Pipeline: true})
	}
	for _, x := range []struct {
		f string
		c []database.Command
	}{{mainF, mixCommands()[:12]}, {persF, pers}} {
		b, _ := yaml.Marshal(x.c)
		os.WriteFile(x.f, b, 0o644)
	}
	mk := func() *database.Database {
		db, err := database.LoadDatabaseWithPersonal(mainF, persF)
		if err != nil {
			fatal("merged corpus: %v", err)
		}
		return db
	}
	return builtCorpus("merged", mk)
}

var corpusCache = map[string]*corpusT{}

func getCorpus(name string) *corpusT {
	if c, ok := corpusCache[name]; ok {
		return c
	}
	var c *corpusT
	switch name {
	case "mix":
		c = loadCorpus("mix", mixCommands())
	case "common": // a small database in which the usual action words occur in (nearly) every entry, and some entries hold nothing else
		c = loadCorpus("common", []database.Command{
			{Command: "lsprog", Description: "List installed programs and show their versions", Keywords: []string{"list", "programs"}},
			{Command: "lsusr", Description: "List users, show groups, find accounts by name", Keywords: []string{"list", "users"}},
			{Command: "zzalpha", Description: "List, show, find", Keywords: []string{"list"}},
			{Command: "zzbeta --all", Description: "Show and list and copy", Keywords: []string{"show"}},
			{Command: "lsdev", Description: "List block devices; show sizes; find by label", Keywords: []string{"devices"}},
			{Command: "cpdir src dst", Description: "Copy a directory, list what was copied, show progress", Keywords: []string{"copy"}}})
	case "tie":
		c = loadCorpus("tie", tieCommands())
	case "single":
		c = loadCorpus("single", mixCommands()[:1])
	case "bigtie":
		var cmds []database.Command
		for j := 0; j < 400; j++ {
			if j%3 == 2 { // fillers keep the tied words below the re-ranker's 80% document-frequency cut-off
				cmds = append(cmds, database.Command{Command: fmt.Sprintf("zqfill%d gadget%d", j, j), Description: fmt.Sprintf("Filler entry about gadget%d", j),
					Keywords: []string{fmt.Sprintf("gadget%d", j)}})
				continue
			}
			cmds = append(cmds, database.Command{Command: "zqbig frobnicate " + string(rune('a'+j%26)), Description: "Frobnicate the widget " + string(rune('a'+j%26)),
				Keywords: []string{"frobnicate", "widget"}})
		}
		c = loadCorpus("bigtie", cmds)
	case "bigvocab": // a personal database grown large: 4,200 entries, some 46,000 distinct words (beyond any plausible vocabulary bound)
		word := func(n int) string {
			b := []byte("qaaaaz")
			for k := 4; k >= 1; k-- {
				b[k] = byte('a' + n%26)
				n /= 26
			}
			return string(b)
		}
		var cmds []database.Command
		for j := 0; j < 4200; j++ {
			ws := make([]string, 11)
			for k := range ws {
				ws[k] = word(j*11 + k)
			}
			cmds = append(cmds, database.Command{Command: "tool" + word(j*11) + " " + ws[1], Description: strings.Join(ws[2:9], " ") + " frobnicate widget",
				Keywords: ws[9:]})
		}
		c = loadCorpus("bigvocab", cmds)
	case "empty":
		c = loadCorpus("empty", nil)
	case "lit": // what a library user (or a test) writes: a literal command list, no loader
		c = builtCorpus("lit", func() *database.Database { return &database.Database{Commands: mixCommands()} })
	case "updated": // commands installed at run time through the caching layer
		c = builtCorpus("updated", func() *database.Database {
			db := &database.Database{Commands: mixCommands()[:30]}
			db.SearchUniversal("frobnicte", database.SearchOptions{Limit: 5, UseFuzzy: true, AllPlatforms: true})
			db.SearchUniversal("frobnicate widget", database.SearchOptions{Limit: 5, UseNLP: true, AllPlatforms: true})
			database.VerifNewCachedDatabase(db, 10, 0).UpdateDatabase(mixCommands())
			return db
		})
	case "grown": // searched (lexically, with NLP, through the typo fallback), then grown by appending, as a long-running caller may
		all := func() []database.Command { return append(mixCommands(), uniqCommands()...) }
		c = builtCorpus2("grown", func() *database.Database {
			f := filepath.Join(tmpDir(), "grown-part.yml")
			b, _ := yaml.Marshal(all()[:40])
			os.WriteFile(f, b, 0o644)
			db, err := database.LoadDatabase(f)
			if err != nil {
				fatal("grown corpus: %v", err)
			}
			for _, q := range []string{"frobnicate widget", "frobnicte", "blrptak", "delete item"} {
				db.SearchUniversal(q, database.SearchOptions{Limit: 5, UseFuzzy: true, UseNLP: q == "delete item", AllPlatforms: true})
			}
			// (the appended entries come from the loader too, so their derived fields are filled like everybody's)
			fr := filepath.Join(tmpDir(), "grown-rest.yml")
			br, _ := yaml.Marshal(all()[40:])
			os.WriteFile(fr, br, 0o644)
			dbr, err := database.LoadDatabase(fr)
			if err != nil {
				fatal("grown corpus: %v", err)
			}
			rest := dbr.Commands
			db.Commands = append(db.Commands, rest[:len(rest)/2]...)
			db.SearchUniversal("frobnicte", database.SearchOptions{Limit: 5, UseFuzzy: true, AllPlatforms: true})
			db.SearchUniversal("frobnicate", database.SearchOptions{Limit: 5, AllPlatforms: true})
			db.Commands = append(db.Commands, rest[len(rest)/2:]...)
			return db
		}, func() *database.Database {
			f := filepath.Join(tmpDir(), "grown-all.yml")
			b, _ := yaml.Marshal(all())
			os.WriteFile(f, b, 0o644)
			db, err := database.LoadDatabase(f)
			if err != nil {
				fatal("grown corpus: %v", err)
			}
			return db
		})
	case "swapped": // a typo search, then the commands replaced by as many other commands (per-database text caches must follow)
		c = builtCorpus2("swapped", func() *database.Database {
			cmds := mixCommands()
			rev := make([]database.Command, len(cmds))
			for i := range cmds {
				rev[len(cmds)-1-i] = cmds[i]
				rev[len(cmds)-1-i].Description = "old " + cmds[i].Description + " zzzz"
			}
			db := &database.Database{Commands: rev}
			db.SearchUniversal("frobnicte", database.SearchOptions{Limit: 5, UseFuzzy: true, AllPlatforms: true})
			db.SearchUniversal("zzzz", database.SearchOptions{Limit: 5, UseFuzzy: true, AllPlatforms: true})
			database.VerifNewCachedDatabase(db, 10, 0).UpdateDatabase(mixCommands())
			return db
		}, func() *database.Database {
			db := &database.Database{Commands: mixCommands()}
			database.VerifNewCachedDatabase(db, 10, 0).UpdateDatabase(mixCommands())
			return db
		})
	case "pair": // two symmetric commands that tie for "deploy app" unless one of the words is boosted
		c = loadCorpus("pair", []database.Command{{Command: "appctl status", Description: "Status of the app"}, {Command: "shipit status", Description: "Status of the deploy"},
			{Command: "zqother thing", Description: "Unrelated"}})
	case "semuni": // an embedding index whose vocabulary has a word with a capital outside ASCII
		cmds := append(mixCommands(), database.Command{Command: "zqux \u00fcber frobnicate", Description: "\u00dcber the widget", Keywords: []string{"\u00fcber"}},
			database.Command{Command: "zquy unter frobnicate", Description: "Unter the widget", Keywords: []string{"unter"}})
		c = loadCorpus("semuni", cmds)
		idx := synthIndex(len(c.db.Commands), false)
		idx.WordVectors["\u00fcber"] = []float32{3, -2, 1, 0.5, -1, 2, 0, 1}
		idx.WordVectors["unter"] = []float32{-3, 2, -1, 0.5, 1, -2, 0, 1}
		idx.CmdEmbeddings[len(idx.CmdEmbeddings)-2] = []float32{3, -2, 1, 0.5, -1, 2, 0, 1}
		idx.CmdEmbeddings[len(idx.CmdEmbeddings)-1] = []float32{-3, 2, -1, 0.5, 1, -2, 0, 1}
		c.db.VerifAttachEmbeddings(idx)
	case "mixblank": // one record nothing can be searched by
		c = loadCorpus("mixblank", append(mixCommands(), database.Command{Command: "...", Description: ""}))
	case "fallback": // the built-in database the loader falls back to when no file loads
		c = builtCorpus("fallback", func() *database.Database {
			none := filepath.Join(tmpDir(), "no-such-dir", "commands.yml")
			db, err := recovery.NewDatabaseRecovery(recovery.RetryConfig{MaxAttempts: 1, BaseDelay: time.Millisecond, MaxDelay: time.Millisecond, BackoffFactor: 1}).
				LoadDatabaseWithFallback(none, none+".personal")
			if err != nil || db == nil {
				fatal("built-in fallback database: %v", err)
			}
			return db
		})
	case "alpha": // one entry per letter of the alphabet: every letter occurs in some query that has a lexical answer
		var cmds []database.Command
		for ch := 'a'; ch <= 'z'; ch++ {
			w := strings.Repeat(string(ch), 3) + "tool"
			cmds = append(cmds, database.Command{Command: "zq" + string(ch) + "x " + w + " | sort", Description: "Handle the " + w + " thing", Keywords: []string{w}})
		}
		c = loadCorpus("alpha", cmds)
	case "sem", "semnan": // the mix corpus with an embedding index attached (semnan: damaged vectors - NaN, +Inf, huge components)
		c = loadCorpus(name, mixCommands())
		c.db.VerifAttachEmbeddings(synthIndex(len(c.db.Commands), name == "semnan"))
	case "neartie0", "neartie1", "neartie2", "neartie3", "neartie4", "neartie5", "neartie6", "neartie7", "neartie8", "neartie9", "neartie10", "neartie11":
		// the same three words in rotated fields: mathematically equal scores whose float sums differ in the last bits
		k, _ := strconv.Atoi(strings.TrimPrefix(name, "neartie"))
		c = loadCorpus(name, nearTieCommands(k))
	case "merged": // a main file plus a notebook holding several entries that tie exactly (what save-pipeline produces)
		c = mergedCorpus()
	case "uniq":
		c = loadCorpus("uniq", uniqCommands())
	case "plat":
		c = loadCorpus("plat", platCommands())
	case "shipped":
		c = shippedCorpus()
	default:
		fatal("unknown corpus %q", name)
	}
	corpusCache[name] = c
	return c
}

// ---------------------------------------------------------------------------
// scenarios

type scenario struct {
	Entry   string   `json:"entry"`
	Limit   int      `json:"limit"`
	NLP     bool     `json:"nlp"`
	Fuzzy   bool     `json:"fuzzy"`
	Thr     int      `json:"thr"`
	POnly   bool     `json:"ponly"`
	PBoost  bool     `json:"pboost"`
	AllPlat bool     `json:"allplat"`
	Plats   []string `json:"plats"`
	NoCross bool     `json:"nocross"`
	Boost   bool     `json:"boost"`
	Query   string   `json:"query"`  // kind: lex | typo | substr | none | raw
	Corpus  string   `json:"corpus"` // mix | tie | single | empty | shipped
	Raw     string   `json:"raw,omitempty"`
	Cap     int      `json:"cap,omitempty"`
	PrimeQ  string   `json:"primeq,omitempty"`
	BoostV  int      `json:"boostvar,omitempty"` // which context-boost map (same terms, permuted / different values)
	// Prime: a search with one option changed is issued on the same (long-lived) database / cache object just
	// before the search under test, so anything the engine remembers between searches is exercised
	Prime string `json:"prime,omitempty"`
}

var primeKinds = []string{"nocross", "allplat", "ponly", "limit0", "limitbig", "nlp", "plats", "thr", "limit1"}

// primed: the options of the priming search (the scenario with one option changed)
func (s scenario) primed() scenario {
	t := s
	t.Prime = ""
	switch s.Prime {
	case "nocross":
		t.NoCross = !s.NoCross
	case "allplat":
		t.AllPlat = !s.AllPlat
	case "ponly":
		t.POnly = !s.POnly
	case "limit0":
		t.Limit = 0
	case "limit1":
		t.Limit = 1
	case "limitbig":
		t.Limit = s.Limit + 7
	case "nlp":
		t.NLP = !s.NLP
	case "plats":
		if len(s.Plats) == 0 {
			t.Plats = []string{"windows"}
		} else {
			t.Plats = nil
		}
	case "thr":
		if s.Thr == 0 {
			t.Thr = -30
		} else {
			t.Thr = 0
		}
	}
	return t
}

func (s scenario) options() database.SearchOptions {
	o := database.SearchOptions{Limit: s.Limit, UseNLP: s.NLP, UseFuzzy: s.Fuzzy, FuzzyThreshold: s.Thr, PipelineOnly: s.POnly,
		AllPlatforms: s.AllPlat, Platforms: s.Plats, NoCrossPlatform: s.NoCross, TopTermsCap: s.Cap}
	if s.PBoost {
		o.PipelineBoost = 2.0
	}
	if s.Boost || s.BoostV > 0 {
		switch s.BoostV {
		case 0:
			o.ContextBoosts = map[string]float64{"frobnicate": 2.0, "widget": 1.3, "absentword": 2.0, "git": 1.5}
		case 1: // the same terms with the values permuted
			o.ContextBoosts = map[string]float64{"frobnicate": 1.3, "widget": 2.0, "absentword": 1.5, "git": 2.0}
		case 2:
			o.ContextBoosts = map[string]float64{"frobnicate": 2.0}
		case 3:
			o.ContextBoosts = map[string]float64{"widget": 2.0, "frobnicate": 1.3}
		case 4: // words the NLP analysis treats as actions / targets itself, with modest factors
			o.ContextBoosts = map[string]float64{"delete": 1.3, "find": 1.1, "install": 1.3, "list": 1.2, "show": 1.2, "run": 1.3, "create": 1.1, "copy": 1.3,
				"move": 1.2, "service": 1.3, "file": 1.1, "directory": 1.2, "process": 1.3}
		case 5: // what a Node.js project directory yields
			o.ContextBoosts = map[string]float64{"npm": 2.0, "yarn": 2.0, "node": 1.8, "javascript": 1.5, "package": 1.3, "install": 1.3, "build": 1.3, "test": 1.3}
		case 8: // keys that differ only in letter case or surrounding blanks, with different values (a Makefile target "Test" beside the project word "test")
			o.ContextBoosts = map[string]float64{"frobnicate": 2.0, "Frobnicate": 1.2, " widget ": 3, "widget": 1.1, "WIDGET": 2.5, "number": 1.4, "Number": 2.2}
		case 9: // factors below 1, zero and negative values
			o.ContextBoosts = map[string]float64{"frobnicate": 0.5, "widget": 0.1, "number": 0, "item": -2}
		case 10: // values that are not factors at all: negative, not a number (a context analyser gone wrong must not poison the scores)
			o.ContextBoosts = map[string]float64{"frobnicate": math.NaN(), "widget": -3, "number": -0.5, "item": -40}
		case 7: // words no command contains (a project type whose vocabulary the database does not know)
			o.ContextBoosts = map[string]float64{"absentword": 1.5, "zzabsent": 2.0, "qqnowhere": 1.8}
		default: // docker + go + kubernetes
			o.ContextBoosts = map[string]float64{"docker": 2.0, "container": 1.8, "image": 1.5, "build": 1.5, "run": 1.3, "go": 2.0, "test": 1.5, "kubectl": 2.0,
				"service": 1.3, "deploy": 1.3, "pod": 1.5}
		}
	}
	return o
}

func (s scenario) queryText() string {
	if s.Raw != "" || s.Query == "raw" {
		return s.Raw
	}
	switch s.Query {
	case "lex":
		return "frobnicate widget"
	case "typo":
		return "frobnicte"
	case "substr":
		return "zq1 qqqqzzzz"
	case "partial": // no lexical hit, not a subsequence, first word nowhere, later words substrings of entries
		return "qqzz robnicat idge"
	case "nlpword": // a word unknown to the index whose NLP expansion hits it
		return nlpWord()
	}
	return "qqqqzzzz"
}

var nlpWordCache string

// nlpWord probes the NLP tables: a word that is not a token of the mix corpus but is analysed as an action/target
// whose expansion contains a word of the corpus (generate-and-classify, so re-tuned tables do not break the harness)
func nlpWord() string {
	if nlpWordCache != "" {
		return nlpWordCache
	}
	corpusWords := map[string]bool{}
	for _, w := range []string{"delete", "remove", "find", "search", "create", "make", "show", "display", "copy", "move", "install", "run", "list", "view"} {
		corpusWords[w] = true
	}
	p := nlp.NewQueryProcessor()
	for _, w := range []string{"destroy", "erase", "locate", "discover", "generate", "build", "duplicate", "relocate", "execute", "launch", "setup", "uninstall", "lookup", "construct", "purge", "wipe", "clone"} {
		pq := p.ProcessQuery(w)
		for _, e := range append(append([]string{}, pq.Actions...), pq.GetEnhancedKeywords()...) {
			if corpusWords[e] && !corpusWords[w] {
				nlpWordCache = w
				return w
			}
		}
	}
	nlpWordCache = "destroy"
	return nlpWordCache
}

type hit struct {
	cmd   *database.Command
	score float64
}

func toHits(rs []database.SearchResult) []hit {
	out := make([]hit, len(rs))
	for i, r := range rs {
		out[i] = hit{r.Command, r.Score}
	}
	return out
}

type runOut struct {
	hits  []hit
	path  string // "" unless known (recovery / cachehit)
	panic string
	attr  [][]int // set by entries that change entries on the way: the attributes of each hit as they are *now*
}

// runEntry calls one public entry point. Cached / monitored entries return the answer of the second call (a hit when
// the first one was stored); first-call answers are returned in `first`.
func runEntry(c *corpusT, s scenario, q string) (out runOut, first *runOut) {
	defer func() {
		if r := recover(); r != nil {
			out.panic = fmt.Sprint(r)
		}
	}()
	o := s.options()
	pq := q // the priming search is asked in this spelling (a re-spelt query is primed with the original spelling)
	if s.PrimeQ != "" {
		pq = s.PrimeQ
	}
	prime := func(f func(po database.SearchOptions)) {
		if s.Prime == "" {
			return
		}
		defer func() { recover() }() // a crash of the priming search belongs to its own scenario
		f(s.primed().options())
	}
	switch s.Entry {
	case "universal":
		prime(func(po database.SearchOptions) { c.db.SearchUniversal(pq, po) })
		out.hits = toHits(c.db.SearchUniversal(q, o))
	case "search":
		out.hits = toHits(c.db.Search(q, s.Limit))
	case "pipeline":
		prime(func(po database.SearchOptions) { c.db.SearchWithPipelineOptions(pq, po) })
		out.hits = toHits(c.db.SearchWithPipelineOptions(q, o))
	case "legacynlp": // deprecated public entry points, still part of the engine's API
		prime(func(po database.SearchOptions) { c.db.SearchWithNLP(pq, po) })
		out.hits = toHits(c.db.SearchWithNLP(q, o))
	case "legacyfuzzy":
		prime(func(po database.SearchOptions) { c.db.SearchWithFuzzy(pq, po) })
		out.hits = toHits(c.db.SearchWithFuzzy(q, o))
	case "legacyoptions":
		prime(func(po database.SearchOptions) { c.db.SearchWithOptions(pq, po) })
		out.hits = toHits(c.db.SearchWithOptions(q, o))
	case "cached":
		cdb := database.VerifNewCachedDatabase(c.db, 50, 0)
		prime(func(po database.SearchOptions) { cdb.SearchWithOptionsAndCache(pq, po) })
		forms := []func(string, database.SearchOptions) []database.SearchResult{cdb.SearchWithOptionsAndCache, cdb.SearchWithFuzzyAndCache,
			cdb.SearchWithPipelineOptionsAndCache} // three names for the same request
		k := len(q) + s.Limit + b2i(s.NLP)
		if k < 0 {
			k = -k
		}
		f := runOut{hits: toHits(forms[k%3](q, o))}
		first = &f
		out.hits = toHits(forms[(k+1)%3](q, o))
		out.path = "cached"
	case "monitored":
		mdb := database.VerifNewMonitoredDatabase(c.db, 50, 0)
		prime(func(po database.SearchOptions) { mdb.SearchWithOptionsAndMonitoring(pq, po) })
		f := runOut{hits: toHits(mdb.SearchWithOptionsAndMonitoring(q, o))}
		first = &f
		out.hits = toHits(mdb.SearchWithOptionsAndMonitoring(q, o))
		out.path = "cached"
	case "cachedseq": // a cached search, the cache switched off, the database replaced, the cache switched on, the search again
		db2, err := database.LoadDatabase(c.file)
		if err != nil {
			fatal("%v", err)
		}
		cdb := database.VerifNewCachedDatabase(db2, 50, 0)
		cdb.SearchWithOptionsAndCache(q, o)
		cdb.EnableCache(false)
		half := append([]database.Command(nil), db2.Commands[len(db2.Commands)/2:]...)
		cdb.UpdateDatabase(half)
		cdb.EnableCache(true)
		res := cdb.SearchWithOptionsAndCache(q, o)
		// results as entries of the *current* database (mapped back to c by content); anything else is no entry of it
		member := map[*database.Command]bool{}
		for i := range cdb.Commands {
			member[&cdb.Commands[i]] = true
		}
		byContent := map[string]*database.Command{}
		for i := range c.db.Commands {
			byContent[contentKey(&c.db.Commands[i])] = &c.db.Commands[i]
		}
		for _, r := range res {
			if member[r.Command] {
				out.hits = append(out.hits, hit{byContent[contentKey(r.Command)], r.Score})
			} else {
				out.hits = append(out.hits, hit{nil, r.Score})
			}
		}
		out.path = "cached"
	case "cachededit": // a cached search; the entries it returned are edited in place so that the filter in force excludes them;
		// the wrapper is told (UpdateDatabase with the very slice it serves); the same search again
		db2, err := database.LoadDatabase(c.file)
		if err != nil {
			fatal("%v", err)
		}
		cdb := database.VerifNewCachedDatabase(db2, 50, 0)
		before := cdb.SearchWithOptionsAndCache(q, o)
		edited := map[*database.Command]bool{}
		was := map[*database.Command]docInfo{}
		byContent0 := map[string]int{}
		for i := range c.db.Commands {
			byContent0[contentKey(&c.db.Commands[i])] = i
		}
		for _, r := range before {
			if d, ok := byContent0[contentKey(r.Command)]; ok {
				was[r.Command] = c.info[d]
			}
			switch {
			case !o.AllPlatforms:
				r.Command.Platform = []string{"zzz-os"}
				edited[r.Command] = true
			case o.PipelineOnly:
				r.Command.Pipeline = false
				r.Command.Command = strings.NewReplacer("|", " ", "&&", " ", ">", " ", "<", " ").Replace(r.Command.Command)
				r.Command.CommandLower = strings.ToLower(r.Command.Command)
				edited[r.Command] = true
			}
		}
		cdb.UpdateDatabase(cdb.Commands)
		res := cdb.SearchWithOptionsAndCache(q, o)
		byContent := map[string]*database.Command{}
		for i := range c.db.Commands {
			byContent[contentKey(&c.db.Commands[i])] = &c.db.Commands[i]
		}
		for _, r := range res {
			if edited[r.Command] { // now a foreign-platform entry / no pipeline
				out.hits = append(out.hits, hit{nil, r.Score})
				di := was[r.Command]
				if !o.AllPlatforms {
					di.decls = []string{"zzz-os"} // (a recognised tool stays eligible through the tool rule: class 3)
				} else {
					di.pipe = false
				}
				out.attr = append(out.attr, []int{platClass(di, s.Plats), b2i(di.pipe), 1, 0})
				continue
			}
			h := hit{byContent[contentKey(r.Command)], r.Score}
			out.hits = append(out.hits, h)
			out.attr = append(out.attr, nil)
		}
		out.path = "cached"
	case "cli":
		// the real binary: wtf --database <file> --limit N --format json -v [platform flags] <query>
		out = runCLI(c, s, q)
	default:
		fatal("unknown entry %q", s.Entry)
	}
	return
}

// ---------------------------------------------------------------------------
// abstraction

type interner struct {
	scores map[uint64]int
	answer map[string]int
	keys   map[string]int
}

func newInterner() *interner {
	return &interner{scores: map[uint64]int{}, answer: map[string]int{}, keys: map[string]int{}}
}

func (in *interner) sid(f float64) int {
	b := math.Float64bits(f)
	if id, ok := in.scores[b]; ok {
		return id
	}
	id := len(in.scores) + 1
	in.scores[b] = id
	return id
}

func (in *interner) str(m map[string]int, s string) int {
	if id, ok := m[s]; ok {
		return id
	}
	id := len(m) + 1
	m[s] = id
	return id
}

func scoreClass(f float64) int {
	switch {
	case math.IsNaN(f) || math.IsInf(f, 0):
		return 3
	case f < 0:
		return 2
	case f == 0:
		return 0
	}
	return 1
}

func (in *interner) abstractHits(c *corpusT, hs []hit) [][]int {
	out := make([][]int, 0, len(hs))
	for _, h := range hs {
		d, ok := c.idx[h.cmd]
		if !ok {
			d = -1
		}
		out = append(out, []int{d, in.sid(h.score), scoreClass(h.score)})
	}
	return out
}

// answerID: identity of a whole answer (documents in order with their score bits)
func (in *interner) answerID(c *corpusT, hs []hit) int {
	var b strings.Builder
	for _, h := range hs {
		d, ok := c.idx[h.cmd]
		if !ok {
			d = -1
		}
		fmt.Fprintf(&b, "%d:%x;", d, math.Float64bits(h.score))
	}
	return in.str(in.answer, b.String())
}

// answerIDIn: identity of an answer given by c2, another copy of the same database, expressed in the document numbering
// of c (entries are matched by content - the k-th entry with some content in c2 is the k-th with that content in c - so a
// copy that holds the entries in a different order answers differently)
func (in *interner) answerIDIn(c, c2 *corpusT, hs []hit) int {
	occ := func(x *corpusT) map[string][]int {
		m := map[string][]int{}
		for i := range x.db.Commands {
			k := contentKey(&x.db.Commands[i])
			m[k] = append(m[k], i)
		}
		return m
	}
	if c.byContent == nil {
		c.byContent = occ(c)
	}
	if c2.byContent == nil {
		c2.byContent = occ(c2)
	}
	var b strings.Builder
	for _, h := range hs {
		d := -1
		if j, ok := c2.idx[h.cmd]; ok {
			k := contentKey(h.cmd)
			for rank, jj := range c2.byContent[k] {
				if jj == j && rank < len(c.byContent[k]) {
					d = c.byContent[k][rank]
				}
			}
		}
		fmt.Fprintf(&b, "%d:%x;", d, math.Float64bits(h.score))
	}
	return in.str(in.answer, b.String())
}

func contentKey(c *database.Command) string {
	return c.Command + "\x00" + c.Description + "\x00" + strings.Join(c.Keywords, ",") + "\x00" + strings.Join(c.Platform, ",")
}

func cmpSeq(hs []hit) []int {
	out := []int{}
	for i := 0; i+1 < len(hs); i++ {
		a, b := hs[i].score, hs[i+1].score
		switch {
		case a > b:
			out = append(out, 1)
		case a == b:
			out = append(out, 0)
		case a < b:
			out = append(out, -1)
		default:
			out = append(out, -2) // NaN involved
		}
	}
	return out
}

func aliasOf(d string) string {
	switch {
	case d == "unix" || d == "bash" || d == "zsh" || strings.HasPrefix(d, "linux"):
		return "linux"
	case d == "darwin" || strings.HasPrefix(d, "macos"):
		return "macos"
	case d == "cmd" || d == "powershell" || strings.HasPrefix(d, "windows"):
		return "windows"
	}
	return "other:" + d
}

const hostPlatform = "linux" // the harness runs on linux; runtime.GOOS is what the engine uses

// platClass: 0 none, 1 inforce, 2 cross, 3 tool, 4 foreign, 5 unknown (generous: 5 is never checked)
func platClass(di docInfo, plats []string) int {
	if len(di.decls) == 0 {
		return 0
	}
	inforce := map[string]bool{}
	if len(plats) == 0 {
		inforce[hostPlatform] = true
	}
	for _, p := range plats {
		inforce[aliasOf(strings.ToLower(p))] = true
		inforce[strings.ToLower(p)] = true
	}
	cross := false
	for _, d := range di.decls {
		if inforce[aliasOf(d)] || inforce[d] {
			return 1
		}
		if d == "cross-platform" {
			cross = true
		}
	}
	switch {
	case cross:
		return 2
	case di.toolKnown:
		return 3
	case di.nonsense:
		return 4
	}
	return 5
}

// isSubseq: do the characters of q occur in order in text, ignoring case (simple folding via ToLower)?
func isSubseq(q, text string) bool {
	qr := []rune(strings.ToLower(q))
	if len(qr) == 0 {
		return true
	}
	i := 0
	for _, r := range strings.ToLower(text) {
		if unicode.ToLower(r) == qr[i] {
			i++
			if i == len(qr) {
				return true
			}
		}
	}
	return false
}

// matchQuality: the matcher's own integer quality of q against one text (clamped for TLC); -9999 if no match
func matchQuality(q, text string) (quality int) {
	defer func() {
		if recover() != nil {
			quality = -9999
		}
	}()
	m := fuzzy.Find(q, []string{text})
	if len(m) == 0 {
		return -9999
	}
	s := m[0].Score
	if s > 100000 {
		s = 100000
	}
	if s < -100000 {
		s = -100000
	}
	return s
}

func b2i(b bool) int {
	if b {
		return 1
	}
	return 0
}

func (in *interner) attrs(c *corpusT, s scenario, q string, hs []hit) [][]int {
	out := make([][]int, 0, len(hs))
	for _, h := range hs {
		d, ok := c.idx[h.cmd]
		if !ok {
			out = append(out, []int{5, 1, 1, 0})
			continue
		}
		di := c.info[d]
		out = append(out, []int{platClass(di, s.Plats), b2i(di.pipe), b2i(isSubseq(q, di.text)), matchQuality(q, di.text)})
	}
	return out
}

// certainlyEligibleSubseq: some document that is certainly eligible under the options contains q as a subsequence
func certainlyEligibleSubseq(c *corpusT, s scenario, q string) bool {
	for _, di := range c.info {
		pc := platClass(di, s.Plats)
		// in force / undeclared, or qualifying through the cross-platform tag or the tool rule while those are not excluded
		okPlat := s.AllPlat || pc == 0 || pc == 1 || ((pc == 2 || pc == 3) && !s.NoCross)
		okPipe := !s.POnly || di.pipe
		if okPlat && okPipe && isSubseq(q, di.text) && matchQuality(q, di.text) > -9999 {
			return true
		}
	}
	return false
}

func mathBits(f float64) uint64 { return math.Float64bits(f) }

func jsonLine(v interface{}) string {
	b, _ := json.Marshal(v)
	return string(b)
}

// ---------------------------------------------------------------------------
// the real binary

type cliItem struct {
	Command string  `json:"command"`
	Score   float64 `json:"score"`
}

var cliHome string

func cliEnv() (home, cwd string) {
	if cliHome == "" {
		cliHome = filepath.Join(tmpDir(), "home")
		os.MkdirAll(filepath.Join(cliHome, "cwd"), 0o755)
	}
	return cliHome, filepath.Join(cliHome, "cwd")
}

// runWtf runs the wtf binary in an isolated home and an empty working directory.
func runWtf(args []string, extraEnv ...string) (stdout string, exit int, err error) {
	return runWtfEnv(args, append([]string{"NO_COLOR=1"}, extraEnv...))
}

func runWtfEnv(args []string, extraEnv []string) (stdout string, exit int, err error) {
	bin := os.Getenv("VERIF_WTF")
	if bin == "" {
		fatal("VERIF_WTF is not set")
	}
	home, cwd := cliEnv()
	cmd := exec.Command(bin, args...)
	cmd.Dir = cwd
	cmd.Env = append([]string{"HOME=" + home, "XDG_CONFIG_HOME=" + filepath.Join(home, ".config"), "PATH=/usr/bin:/bin"}, extraEnv...)
	var ob, eb strings.Builder
	cmd.Stdout, cmd.Stderr = &ob, &eb
	e := cmd.Run()
	if e != nil {
		if ee, ok := e.(*exec.ExitError); ok {
			return ob.String() + eb.String(), ee.ExitCode(), nil
		}
		return "", -1, e
	}
	return ob.String(), 0, nil
}

func parseJSONBlock(out string) ([]cliItem, bool) {
	i := strings.Index(out, "\n[")
	if strings.HasPrefix(out, "[") {
		i = -1
	} else if i < 0 {
		return nil, false
	}
	rest := out[i+1:]
	j := strings.LastIndex(rest, "]")
	if j < 0 {
		return nil, false
	}
	var items []cliItem
	if err := json.Unmarshal([]byte(rest[:j+1]), &items); err != nil {
		return nil, false
	}
	return items, true
}

var cliRuns int

func runCLI(c *corpusT, s scenario, q string) (out runOut) {
	args := []string{"search", "--database", c.file, "--limit", fmt.Sprint(s.Limit), "--format", "json", "-v"}
	cliRuns++
	if cliRuns%2 == 0 { // both ways of starting a search: `wtf search <flags> q` and plain `wtf <flags> q`
		args = args[1:]
	}
	if s.AllPlat {
		args = append(args, "--all-platforms")
	}
	if len(s.Plats) > 0 {
		args = append(args, "--platform", strings.Join(s.Plats, ","))
	}
	if s.NoCross {
		args = append(args, "--no-cross-platform")
	}
	args = append(args, "--", q)
	var so string
	var code int
	var err error
	if c.name == "pair" { // run inside a project directory whose Makefile has a target named like a query word
		home, _ := cliEnv()
		proj := filepath.Join(home, "proj")
		os.MkdirAll(proj, 0o755)
		os.WriteFile(filepath.Join(proj, "Makefile"), []byte("deploy:\n\techo deploy\n\nlint:\n\techo lint\n"), 0o644)
		cmd := exec.Command(os.Getenv("VERIF_WTF"), args...)
		cmd.Dir = proj
		cmd.Env = []string{"HOME=" + home, "XDG_CONFIG_HOME=" + filepath.Join(home, ".config"), "PATH=/usr/bin:/bin", "NO_COLOR=1"}
		b, rerr := cmd.CombinedOutput()
		so = string(b)
		if ee, ok := rerr.(*exec.ExitError); ok {
			code = ee.ExitCode()
		} else {
			err = rerr
		}
	} else {
		so, code, err = runWtf(args)
	}
	if err != nil {
		fatal("cannot run wtf: %v", err)
	}
	if code != 0 || strings.Contains(so, "panic:") || strings.Contains(so, "goroutine 1 [") {
		out.panic = fmt.Sprintf("exit %d: %s", code, lastLines(so, 6))
		return
	}
	if strings.Contains(so, "Search had issues, using") {
		out.path = "recovery"
	}
	items, ok := parseJSONBlock(so)
	if !ok {
		return // no result block: nothing found (or query rejected)
	}
	byCmd := map[string]int{}
	for i := range c.db.Commands {
		if _, dup := byCmd[c.db.Commands[i].Command]; !dup {
			byCmd[c.db.Commands[i].Command] = i
		}
	}
	for _, it := range items {
		if d, ok := byCmd[it.Command]; ok {
			out.hits = append(out.hits, hit{&c.db.Commands[d], it.Score})
		} else {
			out.hits = append(out.hits, hit{nil, it.Score})
		}
	}
	return
}

func lastLines(s string, n int) string {
	l := strings.Split(strings.TrimSpace(s), "\n")
	if len(l) > n {
		l = l[len(l)-n:]
	}
	return strings.Join(l, " / ")
}

// ---------------------------------------------------------------------------
// reference tokeniser, written from the documented rule: normalise (exported nlp.NormalizeText), lower-case, split on
// anything that is not a letter or a digit, drop tokens shorter than two bytes and stop words (exported nlp.StopWords)

var refStop = nlp.StopWords()

func refTokens(s string) []string {
	if s == "" {
		return nil
	}
	s = strings.ToLower(nlp.NormalizeText(s))
	out := []string{}
	for _, w := range strings.FieldsFunc(s, func(r rune) bool { return !unicode.IsLetter(r) && !unicode.IsNumber(r) }) {
		if len(w) < 2 || refStop[w] {
			continue
		}
		out = append(out, w)
	}
	return out
}

// docTokens: the set of indexed words of a command (all four fields)
func docTokens(c *database.Command) map[string]bool {
	m := map[string]bool{}
	for _, f := range []string{strings.ToLower(c.Command), strings.ToLower(c.Description), strings.ToLower(strings.Join(c.Keywords, " ")), strings.ToLower(strings.Join(c.Tags, " "))} {
		for _, t := range refTokens(f) {
			m[t] = true
		}
	}
	return m
}
