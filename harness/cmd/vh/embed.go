package main

import (
	"bytes"
	"encoding/binary"
	"encoding/json"
	"flag"
	"fmt"
	"math"
	"os"
	"os/exec"
	"path/filepath"
	"runtime"
	"strings"
	"syscall"

	"github.com/Vedant9500/WTF/internal/constants"
	"github.com/Vedant9500/WTF/internal/database"
	"github.com/Vedant9500/WTF/internal/embedding"
)

func init() {
	commands["embed-run"] = embedRun
	commands["embed-child"] = embedChild
}

type embedFile struct {
	Header  bool   `json:"header"`
	Claimed int    `json:"claimed"`
	Present int    `json:"present"`
	Tail    string `json:"tail"`
	Kind    string `json:"kind,omitempty"` // words | cmds
	Dim     int    `json:"dim,omitempty"`  // dimension written in a cmds header
	Cut     int    `json:"cut,omitempty"`  // where inside the partial record the file stops
}

type embedEv struct {
	Op         string  `json:"op"`
	Tr         int     `json:"tr"`
	File       string  `json:"file"`
	Outcome    string  `json:"outcome"`
	AllocKB    int     `json:"alloc_kb"`
	SizeKB     int     `json:"size_kb"`
	Complete   bool    `json:"complete"`
	Note       string  `json:"note,omitempty"`
	With       []int   `json:"with"`
	Without    []int   `json:"without"`
	Cmp        [][]int `json:"cmp"`
	Order      []int   `json:"order"`
	Attached   bool    `json:"attached"`
	WithAns    int     `json:"withans"`
	WithoutAns int     `json:"withoutans"`
	Panic      bool    `json:"panic"`
	Sym        bool    `json:"sym"`
	Guard      string  `json:"guard"`
	Cls        string  `json:"cls"`
}

func (e *embedEv) fill() *embedEv {
	if e.With == nil {
		e.With = []int{}
	}
	if e.Without == nil {
		e.Without = []int{}
	}
	if e.Cmp == nil {
		e.Cmp = [][]int{}
	}
	if e.Order == nil {
		e.Order = []int{}
	}
	return e
}

func wordRecord(i int, dim int) []byte {
	var b bytes.Buffer
	w := fmt.Sprintf("word%d", i)
	binary.Write(&b, binary.LittleEndian, uint16(len(w)))
	b.WriteString(w)
	vec := make([]float32, dim)
	for j := range vec {
		vec[j] = float32((i+j)%7) - 3
	}
	binary.Write(&b, binary.LittleEndian, vec)
	return b.Bytes()
}

func cmdRecord(i int, dim int) []byte {
	var b bytes.Buffer
	vec := make([]float32, dim)
	for j := range vec {
		vec[j] = float32((i*3+j)%5) - 2
	}
	binary.Write(&b, binary.LittleEndian, vec)
	return b.Bytes()
}

func claimedValue(c int) uint32 {
	if c >= 1000000 {
		return uint32(c) // the model's "huge" count; callers pass the concrete value
	}
	return uint32(c)
}

func materialiseEmbed(path string, f embedFile, huge uint32) {
	var b bytes.Buffer
	if !f.Header {
		b.Write([]byte{0x01, 0x02}) // shorter than a header
		os.WriteFile(path, b.Bytes(), 0o644)
		return
	}
	claimed := uint32(f.Claimed)
	if f.Claimed >= 1000000 {
		claimed = huge
	}
	binary.Write(&b, binary.LittleEndian, claimed)
	dim := 100
	if f.Kind == "cmds" {
		binary.Write(&b, binary.LittleEndian, uint32(f.Dim))
	}
	for i := 0; i < f.Present; i++ {
		if f.Kind == "cmds" {
			b.Write(cmdRecord(i, dim))
		} else {
			b.Write(wordRecord(i, dim))
		}
	}
	if f.Tail == "partial" {
		var rec []byte
		if f.Kind == "cmds" {
			rec = cmdRecord(99, dim)
		} else {
			rec = wordRecord(99, dim)
		}
		cut := 1 + f.Cut%(len(rec)-1)
		b.Write(rec[:cut])
	}
	os.WriteFile(path, b.Bytes(), 0o644)
}

// embedChild loads one file under an address-space limit and reports outcome and allocation.
func embedChild(args []string) int {
	kind, path := args[0], args[1]
	var lim syscall.Rlimit
	lim.Cur, lim.Max = 3<<30, 3<<30
	syscall.Setrlimit(syscall.RLIMIT_AS, &lim)
	var m0, m1 runtime.MemStats
	runtime.ReadMemStats(&m0)
	outcome := "vectors"
	n := 0
	if kind == "cmds" {
		idx := &embedding.Index{Dimension: 100, WordVectors: map[string][]float32{}}
		if err := idx.LoadCommandEmbeddings(path); err != nil {
			outcome = "error"
		}
		n = idx.NumCommands()
	} else {
		idx, err := embedding.LoadWordVectors(path)
		if err != nil {
			outcome = "error"
		} else {
			n = idx.VocabSize()
		}
	}
	runtime.ReadMemStats(&m1)
	fmt.Printf("{\"outcome\": %q, \"alloc_kb\": %d, \"n\": %d}\n", outcome, (m1.TotalAlloc-m0.TotalAlloc)/1024, n)
	return 0
}

func embedRun(args []string) int {
	fs := flag.NewFlagSet("embed-run", flag.ExitOnError)
	in := fs.String("in", "", "abstract files from the model (json lines)")
	out := fs.String("out", "", "trace")
	nsem := fs.Int("sem", 300, "paired searches")
	ncos := fs.Int("cos", 2000, "cosine evaluations")
	fs.Parse(args)
	r := seededRand(19)
	w := newTraceWriter(*out)
	defer os.RemoveAll(tmpDir())
	self, _ := os.Executable()
	tr := 0
	// ---- loaders
	var files []embedFile
	readJSONLines(*in, func(raw []byte) {
		if raw[0] == '"' {
			var s string
			json.Unmarshal(raw, &s)
			raw = []byte(s)
		}
		var f embedFile
		if err := json.Unmarshal(raw, &f); err != nil {
			fatal("bad file scenario: %v", err)
		}
		files = append(files, f)
	})
	for _, f0 := range files {
		for _, kind := range []string{"words", "cmds"} {
			for _, huge := range []uint32{1 << 28, 1<<32 - 1, 1 << 20} {
				if f0.Claimed < 1000000 && huge != 1<<28 {
					continue
				}
				for _, dim := range []int{100, 3, 0, 1, 25, 0x40000000, 0x80000000, 0xffffffff} {
					if dim != 100 && (kind != "cmds" || !f0.Header) {
						continue
					}
					f := f0
					f.Kind, f.Dim, f.Cut = kind, dim, r.Intn(400)
					tr++
					p := filepath.Join(tmpDir(), fmt.Sprintf("e%d.bin", tr))
					materialiseEmbed(p, f, huge)
					st, _ := os.Stat(p)
					ev := &embedEv{Op: "load", Tr: tr, File: fmt.Sprintf("%s header=%v claimed=%d(huge=%d) present=%d tail=%s dim=%d", kind, f.Header, f.Claimed, huge, f.Present, f.Tail, dim),
						SizeKB: int(st.Size()/1024) + 1, Complete: f.Header && f.Present >= f.Claimed && (kind != "cmds" || dim == 100)}
					cmd := exec.Command(self, "embed-child", kind, p)
					var ob, eb bytes.Buffer
					cmd.Stdout, cmd.Stderr = &ob, &eb
					err := cmd.Run()
					var res struct {
						Outcome string `json:"outcome"`
						AllocKB int    `json:"alloc_kb"`
					}
					if err != nil || json.Unmarshal(bytes.TrimSpace(ob.Bytes()), &res) != nil {
						ev.Outcome = "crash"
						ev.Note = lastLines(eb.String(), 2)
						if strings.Contains(eb.String(), "out of memory") || strings.Contains(eb.String(), "cannot allocate") {
							ev.Outcome = "crash-out-of-memory"
						}
						ev.AllocKB = 1 << 30
					} else {
						ev.Outcome, ev.AllocKB = res.Outcome, res.AllocKB
					}
					os.Remove(p)
					w.emit(ev.fill())
				}
			}
		}
	}
	// counts whose product with a plausible record size wraps around in 32-bit arithmetic, in files large enough for the
	// wrapped product (a size check done in uint32 lets them through)
	for _, kind := range []string{"words", "cmds"} {
		for _, unit := range []uint64{1, 2, 4, 8, 100, 101, 200, 400, 401, 402, 403, 404, 405, 406, 408, 410, 412, 800, 804} {
			for _, pow := range []uint64{1 << 32, 1 << 31} {
				count := (pow + unit - 1) / unit
				if count >= 1<<32 {
					continue
				}
				f := embedFile{Kind: kind, Header: true, Claimed: 1000000, Present: 170, Tail: "none", Dim: 100}
				tr++
				p := filepath.Join(tmpDir(), fmt.Sprintf("e%d.bin", tr))
				materialiseEmbed(p, f, uint32(count))
				st, _ := os.Stat(p)
				ev := &embedEv{Op: "load", Tr: tr, File: fmt.Sprintf("%s header=true claimed=%d (wraps with record size %d) present=170 tail=none dim=100", kind, count, unit),
					SizeKB: int(st.Size()/1024) + 1, Complete: false}
				cmd := exec.Command(self, "embed-child", kind, p)
				var ob, eb bytes.Buffer
				cmd.Stdout, cmd.Stderr = &ob, &eb
				err := cmd.Run()
				var res struct {
					Outcome string `json:"outcome"`
					AllocKB int    `json:"alloc_kb"`
				}
				if err != nil || json.Unmarshal(bytes.TrimSpace(ob.Bytes()), &res) != nil {
					ev.Outcome = "crash"
					ev.Note = lastLines(eb.String(), 2)
					if strings.Contains(eb.String(), "out of memory") || strings.Contains(eb.String(), "cannot allocate") {
						ev.Outcome = "crash-out-of-memory"
					}
					ev.AllocKB = 1 << 30
				} else {
					ev.Outcome, ev.AllocKB = res.Outcome, res.AllocKB
				}
				os.Remove(p)
				w.emit(ev.fill())
			}
		}
	}
	// word records with very long words (the length field allows 65535 bytes): complete files must load, a length field that
	// points past the end of the file is an error
	for _, wl := range []int{399, 400, 401, 1000, 5007, 65535} {
		for _, cut := range []bool{false, true} {
			var b bytes.Buffer
			binary.Write(&b, binary.LittleEndian, uint32(2))
			for i := 0; i < 2; i++ {
				wd := strings.Repeat(string(rune('a'+i)), wl)
				binary.Write(&b, binary.LittleEndian, uint16(len(wd)))
				b.WriteString(wd)
				vec := make([]float32, 100)
				for j := range vec {
					vec[j] = float32(i + j)
				}
				binary.Write(&b, binary.LittleEndian, vec)
			}
			data := b.Bytes()
			if cut {
				data = data[:4+2+wl/2] // ends inside the first word
			}
			tr++
			p := filepath.Join(tmpDir(), fmt.Sprintf("e%d.bin", tr))
			os.WriteFile(p, data, 0o644)
			ev := &embedEv{Op: "load", Tr: tr, File: fmt.Sprintf("words header=true claimed=2 word-length=%d cut=%v", wl, cut), SizeKB: len(data)/1024 + 1, Complete: !cut}
			cmd := exec.Command(self, "embed-child", "words", p)
			var ob, eb bytes.Buffer
			cmd.Stdout, cmd.Stderr = &ob, &eb
			err := cmd.Run()
			var res struct {
				Outcome string `json:"outcome"`
				AllocKB int    `json:"alloc_kb"`
			}
			if err != nil || json.Unmarshal(bytes.TrimSpace(ob.Bytes()), &res) != nil {
				ev.Outcome, ev.AllocKB, ev.Note = "crash", 1<<30, lastLines(eb.String(), 2)
			} else {
				ev.Outcome, ev.AllocKB = res.Outcome, res.AllocKB
			}
			if !cut && ev.Outcome == "error" {
				ev.Outcome = "error-on-a-complete-file"
			}
			os.Remove(p)
			w.emit(ev.fill())
		}
	}
	// ---- semantic stage: paired searches with / without an attached index
	in2 := newInterner()
	qs := []string{"frobnicate widget", "widget number", "delete item", "frobnicte", "item question scattered", "qqqqzzzz", "frobnicate"}
	for i := 0; i < *nsem; i++ {
		src := getCorpus("mix")
		db, err := database.LoadDatabase(src.file)
		if err != nil {
			fatal("%v", err)
		}
		c := wrapCorpus("mix", db, src.cmds, src.file)
		q := qs[r.Intn(len(qs))]
		o := database.SearchOptions{Limit: []int{3, 10, 200}[r.Intn(3)], UseNLP: r.Intn(2) == 0, UseFuzzy: r.Intn(2) == 0, AllPlatforms: true}
		tr++
		ev := &embedEv{Op: "sem", Tr: tr}
		func() {
			defer func() {
				if rec := recover(); rec != nil {
					ev.Panic = true
					ev.Note = fmt.Sprint(rec)
				}
			}()
			full := o
			full.Limit = 500
			without := db.SearchUniversal(q, full)
			ev.WithoutAns = in2.answerID(c, toHits(without))
			// build an index: vectors for the query's words, one embedding per command (sometimes fewer / more, sometimes none)
			mode := r.Intn(8)
			if mode > 0 {
				dim := 8
				if mode >= 6 { // the index goes through the two binary files and the real loaders (100 dimensions there)
					dim = 100
				}
				idx := &embedding.Index{Dimension: dim, WordVectors: map[string][]float32{}}
				for _, t := range strings.Fields(strings.ToLower(q)) {
					v := make([]float32, dim)
					for j := range v {
						v[j] = float32(r.NormFloat64())
					}
					idx.WordVectors[t] = v
				}
				n := len(db.Commands)
				if mode == 4 {
					n = n / 2
				}
				if mode == 5 {
					n = n + 7
				}
				qdir := make([]float64, dim) // the direction of the query's own embedding
				for _, wv := range idx.WordVectors {
					for j := range wv {
						qdir[j] += float64(wv[j])
					}
				}
				qn := 0.0
				for _, x := range qdir {
					qn += x * x
				}
				qn = math.Sqrt(qn)
				for k := 0; k < n; k++ {
					v := make([]float32, dim)
					for j := range v {
						v[j] = float32(r.NormFloat64())
					}
					if k%9 == 0 {
						v = make([]float32, dim) // zero vector
					}
					if mode >= 6 { // a file whose first rows are unit length and whose later rows are not (long, and close to the query)
						if k < 20 {
							nn := 0.0
							for _, x := range v {
								nn += float64(x) * float64(x)
							}
							if nn > 0 {
								for j := range v {
									v[j] = float32(float64(v[j]) / math.Sqrt(nn))
								}
							}
						} else if k%2 == 0 && qn > 0 {
							for j := range v {
								v[j] = float32(10*qdir[j]/qn) + v[j]/50
							}
						} else if k%3 == 0 {
							for j := range v {
								v[j] /= 40 // shorter than one
							}
						}
					}
					if mode == 3 { // a damaged table: NaN, infinities and huge components here and there
						switch k % 7 {
						case 1:
							v[k%dim] = float32(math.NaN())
						case 2:
							v[k%dim] = float32(math.Inf(1))
						case 3:
							v[k%dim] = float32(math.Inf(-1))
						case 4:
							v[k%dim] = math.MaxFloat32
						}
					}
					idx.CmdEmbeddings = append(idx.CmdEmbeddings, v)
				}
				if mode >= 6 {
					idx = throughFiles(idx, tr)
				}
				db.VerifAttachEmbeddings(idx)
				ev.Attached = true
			}
			base := map[int]float64{}
			for _, h := range without {
				base[c.idx[h.Command]] = h.Score
			}
			// the same search three times over on the same index: the bound holds for every one of them
			var with []database.SearchResult
			for rep := 0; rep < 3; rep++ {
				with = db.SearchUniversal(q, full)
				for _, h := range with {
					d := c.idx[h.Command]
					b0, ok := base[d]
					if !ok {
						continue
					}
					cmp := 0
					if h.Score > b0 {
						cmp = 1
					} else if h.Score < b0 {
						cmp = -1
					}
					within := h.Score <= b0*(1+constants.SemanticAlpha)*(1+1e-12)+1e-300
					if rep == 0 || !within || cmp < 0 {
						ev.Cmp = append(ev.Cmp, []int{d, cmp, b2i(within)})
					}
				}
				if rep == 0 {
					ev.WithAns = in2.answerID(c, toHits(with))
				}
			}
			ev.With, ev.Without = docsOf(c, with), docsOf(c, without)
			ev.Order = cmpSeq(toHits(with))
		}()
		w.emit(ev.fill())
	}
	// ---- no embedding files anywhere: asking for them changes nothing, whatever kind of database it is asked of
	for i, q := range []string{"frobnicate widget", "delete item", "find item question", "widget number"} {
		for _, nlpOn := range []bool{false, true} {
			mk := func() (*database.Database, *corpusT) {
				db := &database.Database{Commands: mixCommands()}
				if i%2 == 1 { // ... or one that came from the loader
					if l, err := database.LoadDatabase(getCorpus("mix").file); err == nil {
						db = l
					}
				}
				return db, wrapCorpus("mix", db, nil, "")
			}
			o := database.SearchOptions{Limit: 20, UseNLP: nlpOn, AllPlatforms: true}
			tr++
			ev := &embedEv{Op: "sem", Tr: tr}
			func() {
				defer func() {
					if rec := recover(); rec != nil {
						ev.Panic, ev.Note = true, fmt.Sprint(rec)
					}
				}()
				db0, c0 := mk()
				without := db0.SearchUniversal(q, o)
				db1, c1 := mk()
				db1.LoadEmbeddings() // finds no files here
				with := db1.SearchUniversal(q, o)
				ev.WithoutAns, ev.WithAns = in2.answerID(c0, toHits(without)), in2.answerID(c1, toHits(with))
				ev.With, ev.Without = docsOf(c1, with), docsOf(c0, without)
				ev.Order = cmpSeq(toHits(with))
			}()
			w.emit(ev.fill())
		}
	}
	// ---- cosine similarity
	for i := 0; i < *ncos; i++ {
		tr++
		ev := &embedEv{Op: "cos", Tr: tr, Guard: "normal"}
		dim := 1 + r.Intn(12)
		mk := func(n int) []float32 {
			v := make([]float32, n)
			scale := math.Pow(10, float64(r.Intn(60)-30))
			for j := range v {
				v[j] = float32(r.NormFloat64() * scale)
			}
			return v
		}
		a, b := mk(dim), mk(dim)
		switch r.Intn(10) {
		case 0:
			a, b, ev.Guard = nil, nil, "empty"
		case 1:
			if r.Intn(2) == 0 {
				a, ev.Guard = make([]float32, dim), "zerovec"
			} else {
				b, ev.Guard = make([]float32, dim), "zerovec"
			}
		case 2:
			b, ev.Guard = mk(dim+1+r.Intn(3)), "mismatch"
		case 3: // collinear: the rounding-sensitive case
			for j := range b {
				b[j] = a[j] * 3
			}
		case 4:
			for j := range b {
				b[j] = -a[j]
			}
		}
		if ev.Guard == "normal" {
			var na, nb float64
			for j := range a {
				na += float64(a[j]) * float64(a[j])
				nb += float64(b[j]) * float64(b[j])
			}
			if na == 0 || nb == 0 {
				ev.Guard = "zerovec"
			}
		}
		c1, c2 := embedding.CosineSimilarity(a, b), embedding.CosineSimilarity(b, a)
		if i%4 == 0 { // the same pair through the index API (query a against a one-command index holding b)
			sc := (&embedding.Index{Dimension: len(a), CmdEmbeddings: [][]float32{b}}).SemanticScores(a)
			c1 = 0
			if len(sc) == 1 {
				c1 = sc[0]
			}
			c2 = c1
			if ev.Guard == "normal" || ev.Guard == "zerovec" {
				c2 = embedding.CosineSimilarity(a, b) // must agree with the plain function
			}
		}
		ev.Sym = c1 == c2 || (math.IsNaN(c1) && math.IsNaN(c2))
		switch {
		case math.IsNaN(c1) || math.IsInf(c1, 0):
			ev.Cls = "nan"
		case c1 == 0:
			ev.Cls = "zero"
		case math.Abs(c1) <= 1+1e-9:
			ev.Cls = "in"
		default:
			ev.Cls = "over"
		}
		w.emit(ev.fill())
	}
	w.close()
	fmt.Printf("{\"events\": %d, \"files\": %d}\n", w.n, len(files))
	return 0
}

// throughFiles writes an index into the two binary files of the documented format and reads it back with the real loaders
func throughFiles(idx *embedding.Index, tr int) *embedding.Index {
	var wb, cb bytes.Buffer
	binary.Write(&wb, binary.LittleEndian, uint32(len(idx.WordVectors)))
	for w, v := range idx.WordVectors {
		binary.Write(&wb, binary.LittleEndian, uint16(len(w)))
		wb.WriteString(w)
		binary.Write(&wb, binary.LittleEndian, v)
	}
	binary.Write(&cb, binary.LittleEndian, uint32(len(idx.CmdEmbeddings)))
	binary.Write(&cb, binary.LittleEndian, uint32(idx.Dimension))
	for _, v := range idx.CmdEmbeddings {
		binary.Write(&cb, binary.LittleEndian, v)
	}
	wp := filepath.Join(tmpDir(), fmt.Sprintf("glove-%d.bin", tr))
	cp := filepath.Join(tmpDir(), fmt.Sprintf("cmds-%d.bin", tr))
	defer os.Remove(wp)
	defer os.Remove(cp)
	if os.WriteFile(wp, wb.Bytes(), 0o644) != nil || os.WriteFile(cp, cb.Bytes(), 0o644) != nil {
		fatal("embedding files: cannot write")
	}
	loaded, err := embedding.LoadWordVectors(wp)
	if err != nil {
		fatal("a well-formed word vector file does not load: %v", err)
	}
	if err := loaded.LoadCommandEmbeddings(cp); err != nil {
		fatal("a well-formed command embedding file does not load: %v", err)
	}
	return loaded
}
