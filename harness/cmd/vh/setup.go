package main

import (
	"crypto/sha256"
	"flag"
	"fmt"
	"io/fs"
	"os"
	"path/filepath"
	"regexp"
	"sort"
	"strings"
)

func init() { commands["setup-run"] = setupRun }

type setupFile struct {
	There bool     `json:"there"`
	Defs  []string `json:"defs"`
	Ment  []string `json:"ment"`
	Kept  bool     `json:"kept"`
}

type setupEv struct {
	Op       string               `json:"op"`
	Tr       int                  `json:"tr"`
	Name     string               `json:"name"`
	Files    map[string]setupFile `json:"files"`
	Others   []string             `json:"others"`
	Crash    bool                 `json:"crash"`
	Complete bool                 `json:"complete"`
	Output   string               `json:"output,omitempty"`
}

var reAliasDef = regexp.MustCompile(`^alias ([^\s=]+)='[^']*'$`)

// setupRun: `wtf setup <name>` through the real binary in scratch home directories whose shell start-up files exist or not,
// are empty, define the name already, or only mention it; after every run both files are read back (which names their
// lines define, in order; which they merely mention; whether the previous content is still there byte for byte).
func setupRun(args []string) int {
	fl := flag.NewFlagSet("setup-run", flag.ExitOnError)
	out := fl.String("out", "", "trace")
	ns := fl.Int("sessions", 20, "sessions")
	length := fl.Int("len", 8, "commands per session")
	fl.Parse(args)
	r := seededRand(808)
	w := newTraceWriter(*out)
	defer os.RemoveAll(tmpDir())
	pool := []string{"hey", "miko", "h", "he"}
	seeds := []string{"\x00absent", "", "# my rc\nexport X=1\n", "export X=1", "alias hey='old'\n", "# alias hey='old'\n", "unalias miko 2>/dev/null\n",
		"alias h='ls'\nalias miko='/usr/bin/true'\n", "  # was: alias he ='x'\nexport Y=2\n", "alias hey='a'\n# alias miko='b'\n"}
	files := map[string]string{"bashrc": ".bashrc", "zshrc": ".zshrc"}
	for s := 1; s <= *ns; s++ {
		home := filepath.Join(tmpDir(), fmt.Sprintf("setup%d", s))
		cliHome = home
		os.MkdirAll(filepath.Join(home, "cwd"), 0o755)
		os.WriteFile(filepath.Join(home, ".profile"), []byte("# untouched\n"), 0o644)
		for _, fn := range files {
			if c := seeds[r.Intn(len(seeds))]; c != "\x00absent" {
				os.WriteFile(filepath.Join(home, fn), []byte(c), 0o644)
			}
		}
		prev := map[string]string{}
		snapOthers := func() map[string]string {
			m := map[string]string{}
			filepath.WalkDir(home, func(p string, d fs.DirEntry, err error) error {
				if err != nil || d.IsDir() {
					return nil
				}
				rel, _ := filepath.Rel(home, p)
				if rel == ".bashrc" || rel == ".zshrc" {
					return nil
				}
				b, _ := os.ReadFile(p)
				m[rel] = fmt.Sprintf("%x", sha256.Sum256(b))
				return nil
			})
			return m
		}
		others := snapOthers()
		emit := func(e *setupEv, output string, code int) {
			e.Tr, e.Files, e.Others = s, map[string]setupFile{}, []string{}
			for k, fn := range files {
				sf := setupFile{Defs: []string{}, Ment: []string{}}
				b, err := os.ReadFile(filepath.Join(home, fn))
				if err == nil {
					sf.There = true
					c := string(b)
					defined := map[string]bool{}
					for _, line := range strings.Split(c, "\n") {
						if m := reAliasDef.FindStringSubmatch(line); m != nil {
							sf.Defs = append(sf.Defs, m[1])
							defined[m[1]] = true
						}
					}
					for _, n := range pool {
						if !defined[n] && (strings.Contains(c, "alias "+n+"=") || strings.Contains(c, "alias "+n+" ")) {
							sf.Ment = append(sf.Ment, n)
						}
					}
					sf.Kept = strings.HasPrefix(c, prev[k])
					prev[k] = c
				} else {
					_, had := prev[k]
					sf.Kept = !had
				}
				e.Files[k] = sf
			}
			now := snapOthers()
			for k, v := range now {
				if others[k] != v {
					e.Others = append(e.Others, k)
				}
			}
			for k := range others {
				if _, ok := now[k]; !ok {
					e.Others = append(e.Others, k)
				}
			}
			sort.Strings(e.Others)
			others = now
			e.Crash = strings.Contains(output, "panic:") || strings.Contains(output, "goroutine 1 [") || code < 0 || code > 2
			if e.Crash || len(e.Others) > 0 {
				e.Output = output
			}
			w.emit(e)
		}
		emit(&setupEv{Op: "begin"}, "", 0)
		for i := 0; i < *length; i++ {
			name := pool[r.Intn(len(pool))]
			o, code, _ := runWtf([]string{"setup", name})
			emit(&setupEv{Op: "setup", Name: name, Complete: strings.Contains(o, "Setup complete!")}, o, code)
		}
		os.RemoveAll(home)
	}
	w.close()
	fmt.Printf("{\"sessions\": %d, \"events\": %d}\n", *ns, w.n)
	return 0
}
