package main

import (
	"encoding/json"
	"flag"
	"fmt"
	"math"
	"strconv"
	"strings"
	"time"

	"github.com/Vedant9500/WTF/internal/cache"
)

func init() {
	commands["lru-info"] = lruInfo
	commands["lru-tours"] = lruTours
	commands["lru-random"] = lruRandom
	commands["lru-searchcache"] = lruSearchCache
}

const lruUnit = time.Hour

type lruEv struct {
	Op        string `json:"op"`
	K         int    `json:"k"`
	V         int    `json:"v"`
	Found     bool   `json:"found"`
	N         int    `json:"n"`
	Keys      []int  `json:"keys"`
	Hits      int64  `json:"hits"`
	Misses    int64  `json:"misses"`
	Evictions int64  `json:"evictions"`
	Size      int    `json:"size"`
	Cap       int    `json:"cap"`
	CapReq    int    `json:"capreq"`
	TTL       int    `json:"ttl"`
	Tr        int    `json:"tr"`
}

// lruDriver applies abstract operations to a real cache.LRUCache and logs one event each.
type lruDriver struct {
	c       *cache.LRUCache
	w       *traceWriter
	capReq  int
	ttl     int  // model ticks
	elapsed bool // lifetime already elapsed: real ttl 1ns, every op preceded by a real pause
	tr      int
}

func (d *lruDriver) obs(ev *lruEv) {
	ks := d.c.Keys()
	ints := make([]int, 0, len(ks))
	for _, k := range ks {
		i, _ := strconv.Atoi(k)
		ints = append(ints, i)
	}
	ev.Keys = sortedInts(ints)
	st := d.c.Stats()
	ev.Hits, ev.Misses, ev.Evictions, ev.Size, ev.Cap = st.Hits, st.Misses, st.Evictions, st.Size, st.Capacity
	ev.CapReq, ev.TTL, ev.Tr = d.capReq, d.ttl, d.tr
	d.w.emit(ev)
}

func (d *lruDriver) reset(capReq, ttl int, elapsed bool) {
	d.capReq, d.ttl, d.elapsed = capReq, ttl, elapsed
	var real time.Duration
	switch {
	case elapsed:
		real = time.Nanosecond
		d.ttl = 1
	case ttl > 0:
		real = time.Duration(ttl)*lruUnit + lruUnit/2
	}
	d.c = cache.NewLRUCache(capReq, real)
	d.tr++
	d.obs(&lruEv{Op: "new"})
}

func (d *lruDriver) apply(op string, k, v int) {
	if d.elapsed && op != "tick" {
		time.Sleep(2 * time.Microsecond)
		d.obs(&lruEv{Op: "tick", N: 2})
	}
	key := strconv.Itoa(k)
	ev := &lruEv{Op: op, K: k, V: v}
	switch op {
	case "get":
		val, ok := d.c.Get(key)
		ev.Found = ok
		ev.V = -1
		if ok {
			ev.V = val.(int)
		}
	case "put":
		d.c.Put(key, v)
	case "delete":
		ev.Found = d.c.Delete(key)
	case "clear":
		d.c.Clear()
	case "sweep":
		ev.N = d.c.CleanupExpired()
	case "size":
		ev.N = d.c.Size()
	case "tick":
		if d.ttl == 0 || d.elapsed {
			return
		}
		if k < 1 {
			k = 1
		}
		d.c.VerifAdvance(time.Duration(k) * lruUnit)
		ev.N, ev.K = k, 0
	default:
		fatal("lru: unknown op %q", op)
	}
	d.obs(ev)
}

func lruInfo(args []string) int {
	fmt.Printf("{\"default_cap\": %d, \"default_cap_neg\": %d}\n", cache.NewLRUCache(0, 0).Capacity(), cache.NewLRUCache(-3, 0).Capacity())
	return 0
}

type lruTour struct {
	CapReq int             `json:"capreq"`
	TTL    int             `json:"ttl"`
	Ops    [][]interface{} `json:"ops"`
}

func num(x interface{}) int {
	switch t := x.(type) {
	case float64:
		return int(t)
	case int:
		return t
	}
	return 0
}

// lruTours executes operation sequences planned from the TLC transition dump.
func lruTours(args []string) int {
	fs := flag.NewFlagSet("lru-tours", flag.ExitOnError)
	in := fs.String("in", "", "tours file (json lines)")
	out := fs.String("out", "", "trace file")
	fs.Parse(args)
	d := &lruDriver{w: newTraceWriter(*out)}
	n := 0
	readJSONLines(*in, func(raw []byte) {
		var t lruTour
		if err := json.Unmarshal(raw, &t); err != nil {
			fatal("bad tour: %v", err)
		}
		d.reset(t.CapReq, t.TTL, false)
		for _, o := range t.Ops {
			op := o[0].(string)
			k, v := 0, 0
			if len(o) > 1 {
				k = num(o[1])
			}
			if len(o) > 2 {
				v = num(o[2])
			}
			d.apply(op, k, v)
		}
		n++
	})
	d.w.close()
	fmt.Printf("{\"tours\": %d, \"events\": %d}\n", n, d.w.n)
	return 0
}

// lruRandom: seeded random histories on larger domains (binding B).
func lruRandom(args []string) int {
	fs := flag.NewFlagSet("lru-random", flag.ExitOnError)
	out := fs.String("out", "", "trace file")
	ntr := fs.Int("traces", 200, "number of traces")
	length := fs.Int("len", 100, "operations per trace")
	fs.Parse(args)
	r := seededRand(12)
	d := &lruDriver{w: newTraceWriter(*out)}
	defCap := cache.NewLRUCache(0, 0).Capacity()
	for t := 0; t < *ntr; t++ {
		capReq := []int{1, 2, 3, 4, 5, 0, -3}[r.Intn(7)]
		nkeys := 3 + r.Intn(18)
		ln := *length
		if capReq < 1 {
			// drive the default capacity past its bound
			nkeys = defCap + 5 + r.Intn(20)
			ln = 3*defCap + *length
		}
		mode := r.Intn(4) // 0 unlimited, 1..2 ticks, 3 elapsed
		switch mode {
		case 0:
			d.reset(capReq, 0, false)
		case 1, 2:
			d.reset(capReq, 1+r.Intn(3), false)
		case 3:
			d.reset(capReq, 1, true)
			if ln > 60 {
				ln = 60
			}
		}
		for i := 0; i < ln; i++ {
			k := 1 + r.Intn(nkeys)
			if r.Intn(3) == 0 { // locality: revisit small keys
				k = 1 + r.Intn(3)
			}
			switch x := r.Intn(100); {
			case x < 34:
				d.apply("get", k, 0)
			case x < 70:
				d.apply("put", k, r.Intn(1000))
			case x < 78:
				d.apply("delete", k, 0)
			case x < 80:
				d.apply("clear", 0, 0)
			case x < 86:
				d.apply("sweep", 0, 0)
			case x < 90:
				d.apply("size", 0, 0)
			default:
				d.apply("tick", 1+r.Intn(2), 0)
			}
		}
	}
	d.w.close()
	fmt.Printf("{\"traces\": %d, \"events\": %d}\n", *ntr, d.w.n)
	return 0
}

// lruSearchCache: the typed front of the cache (cache.SearchCache: results filed under query + options) driven directly.
// Events use the cache-layer vocabulary of TraceCacheLRU: "reset", "scput", "scget", "invalidate", "enable".
func lruSearchCache(args []string) int {
	fs := flag.NewFlagSet("lru-searchcache", flag.ExitOnError)
	out := fs.String("out", "", "trace")
	ntr := fs.Int("traces", 60, "traces")
	length := fs.Int("len", 60, "operations per trace")
	invpat := fs.Bool("invpat", false, "also call InvalidatePattern (X03; not an operation of C12)")
	fs.Parse(args)
	r := seededRand(1212)
	w := newTraceWriter(*out)
	in := newInterner()
	type scEv struct {
		Op    string `json:"op"`
		ID    int    `json:"id"`
		Ans   int    `json:"ans"`
		Hit   bool   `json:"hit"`
		Mon   bool   `json:"mon"`
		B     bool   `json:"b"`
		N     int    `json:"n"`
		NRes  int    `json:"nres"`
		Panic bool   `json:"panic"`
		SH    int64  `json:"sh"`
		SM    int64  `json:"sm"`
		SE    int64  `json:"se"`
		SZ    int    `json:"sz"`
		Cap   int    `json:"cap"`
		TTL   int    `json:"ttl"`
		Tr    int    `json:"tr"`
		Cls   string `json:"cls"`
		Q     string `json:"q"`
	}
	listID := func(rs []cache.SearchResult) int {
		var b strings.Builder
		for _, x := range rs {
			fmt.Fprintf(&b, "%v:%x;", x.Command, math.Float64bits(x.Score))
		}
		return in.str(in.answer, b.String())
	}
	queries := []string{"list files", "List Files", "compress", "  compress ", "docker ps", "find text"}
	for t := 1; t <= *ntr; t++ {
		capacity := []int{1, 2, 3, 50}[r.Intn(4)]
		ttl := []int{0, 0, 1, 2, 3}[r.Intn(5)] // lifetime in ticks (0: unlimited); it is the cache's own for good, whatever is called on it
		var real time.Duration
		if ttl > 0 {
			real = time.Duration(ttl)*lruUnit + lruUnit/2
		}
		sc := cache.NewSearchCache(capacity, real)
		emit := func(e *scEv) {
			st := sc.Stats()
			e.SH, e.SM, e.SE, e.SZ, e.Tr = st.Hits, st.Misses, st.Evictions, st.Size, t
			w.emit(e)
		}
		emit(&scEv{Op: "reset", Cap: capacity, TTL: ttl})
		on := true
		for i := 0; i < *length; i++ {
			q := queries[r.Intn(len(queries))]
			o := cache.SearchOptions{Limit: []int{0, 1, 2, 3, 5, 10}[r.Intn(6)], UseNLP: r.Intn(2) == 0}
			id := in.str(in.keys, strings.ToLower(strings.TrimSpace(q))+fmt.Sprintf("|%d|%v", o.Limit, o.UseNLP))
			switch x := r.Intn(100); {
			case x < 45: // store a list of any length, shorter or longer than the limit in the options
				n := r.Intn(8)
				rs := make([]cache.SearchResult, n)
				for j := range rs {
					rs[j] = cache.SearchResult{Command: fmt.Sprintf("cmd-%d-%d", i, j), Score: float64(100-j) / 3}
				}
				sc.Put(q, o, rs)
				emit(&scEv{Op: "scput", ID: id, Ans: listID(rs), NRes: n})
			case x < 84 && ttl > 0 && x >= 76:
				sc.VerifAdvance(lruUnit)
				emit(&scEv{Op: "tick"})
			case x < 88 && ttl > 0 && x >= 84:
				n := sc.CleanupExpired()
				emit(&scEv{Op: "cleanup", N: n})
			case x < 88:
				rs, ok := sc.Get(q, o)
				e := &scEv{Op: "scget", ID: id, Hit: ok, NRes: len(rs)}
				if ok {
					e.Ans = listID(rs)
				}
				emit(e)
			case x < 93 && x >= 88:
				sc.Invalidate()
				emit(&scEv{Op: "invalidate"})
			case x < 97 && *invpat && capacity <= 3: // (small caches only: the specification tries every subset of the entries)
				pat, cls := "", "all"
				switch r.Intn(6) {
				case 0:
					pat = "search:"
				case 1:
					pat = []string{"earch", "s", ":"}[r.Intn(3)]
				case 2:
					pat, cls = []string{"z", "search:x", "S", " ", "search::"}[r.Intn(5)], "none"
				case 3, 4:
					pat, cls = string("0123456789abcdef"[r.Intn(16)])+string("0123456789abcdef"[r.Intn(16)]), "some"
				}
				n := sc.InvalidatePattern(pat)
				emit(&scEv{Op: "invpat", N: n, Cls: cls, Q: pat})
			default:
				on = r.Intn(3) != 0
				sc.Enable(on)
				emit(&scEv{Op: "enable", B: on})
			}
		}
	}
	w.close()
	fmt.Printf("{\"traces\": %d, \"events\": %d}\n", *ntr, w.n)
	return 0
}
