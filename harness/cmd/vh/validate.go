package main

import (
	"encoding/json"
	"flag"
	"fmt"
	"os"
	"path/filepath"
	"strings"
	"unicode"
	"unicode/utf8"

	"github.com/Vedant9500/WTF/internal/validation"
)

func init() { commands["validate-run"] = validateRun }

// representatives per character class of spec/Validate.tla
var classReps = map[int][]string{
	1:  {"a", "Z", "7", "-", "\"", "'", "*", "\\"},
	2:  {"é", "ß", "Ω", "ж"},
	3:  {"🚀", "𝔘", "\U00010348"},
	4:  {" "},
	5:  {"\t"},
	6:  {"\n"},
	7:  {"\u2003", "\u2009", "\u3000", "\u2028"},
	8:  {"\x01", "\x00", "\x1b", "\x7f"},
	9:  {"\u0085"},
	10: {"<", ">", "|", "&", ";", "$"},
	11: {"\xff", "\xc3", "\x80", "\xf5"},
	12: {"\ufffd"},
	13: {"€", "中", "ก"},
	14: {"\u00a0"},
	15: {"\u0090", "\u009f"},
	16: {"\r", "\v", "\f"},
}

func classOf(r rune, size int) int {
	switch {
	case r == utf8.RuneError && size == 1:
		return 11
	case r == utf8.RuneError:
		return 12
	case strings.ContainsRune("<>|&;$", r):
		return 10
	case r == ' ':
		return 4
	case r == '\t':
		return 5
	case r == '\n':
		return 6
	case r == 0x85:
		return 9
	case r == '\r' || r == '\v' || r == '\f':
		return 16
	case unicode.IsControl(r):
		if size == 1 {
			return 8
		}
		return 15
	case unicode.IsSpace(r):
		if size == 2 {
			return 14
		}
		return 7
	}
	switch size {
	case 1:
		return 1
	case 2:
		return 2
	case 3:
		return 13
	}
	return 3
}

func classify(s string) []int {
	out := []int{}
	for i := 0; i < len(s); {
		r, size := utf8.DecodeRuneInString(s[i:])
		out = append(out, classOf(r, size))
		i += size
	}
	return out
}

// mergeable: does deleting the control characters (byte-wise) make stray bytes combine into characters
// that the class sequence of the input does not contain?
func mergeable(q string, classes []int) bool {
	var b strings.Builder
	want := []int{}
	ci := 0
	for i := 0; i < len(q); {
		r, size := utf8.DecodeRuneInString(q[i:])
		c := classes[ci]
		ci++
		if !unicode.IsControl(r) {
			b.WriteString(q[i : i+size])
			want = append(want, c)
		}
		i += size
	}
	got := classify(b.String())
	if len(got) != len(want) {
		return true
	}
	for i := range got {
		if got[i] != want[i] {
			return true
		}
	}
	return false
}

type valEv struct {
	Op       string `json:"op"`
	In       []int  `json:"in"`
	OK       bool   `json:"ok"`
	Out      []int  `json:"out"`
	OK2      bool   `json:"ok2"`
	Same     bool   `json:"same"`
	InChars  int    `json:"inchars"`
	OutChars int    `json:"outchars"`
	N        int    `json:"n"`
	Val      int    `json:"val"`
	Deflt    int    `json:"deflt"`
	Tr       int    `json:"tr"`
	Merge    bool   `json:"merge"`
	Hex      string `json:"hex,omitempty"`
	Printed  int    `json:"printed"` // climit: results printed by the real binary
	Form     string `json:"form,omitempty"`
}

func validateRun(args []string) int {
	fs := flag.NewFlagSet("validate-run", flag.ExitOnError)
	in := fs.String("in", "", "class sequences from the model (json lines)")
	out := fs.String("out", "", "trace")
	reps := fs.Int("reps", 2, "concretisations per class sequence")
	nrand := fs.Int("random", 2000, "random byte strings")
	nbound := fs.Int("boundary", 60, "boundary-length inputs")
	fs.Parse(args)
	r := seededRand(14)
	w := newTraceWriter(*out)
	tr := 0
	run := func(q string) {
		tr++
		ev := &valEv{Op: "query", In: classify(q), Out: []int{}, Tr: tr, InChars: len(classify(q))}
		if len(q) <= 64 {
			ev.Hex = fmt.Sprintf("%x", q)
		}
		ev.Merge = mergeable(q, ev.In)
		o, err := validation.ValidateQuery(q)
		ev.OK = err == nil
		if ev.OK {
			ev.Out = classify(o)
			ev.OutChars = len(ev.Out)
			o2, err2 := validation.ValidateQuery(o)
			ev.OK2 = err2 == nil
			ev.Same = err2 == nil && o2 == o
		}
		w.emit(ev)
	}
	nseq := 0
	if *in != "" {
		readJSONLines(*in, func(raw []byte) {
			var seq []int
			if raw[0] == '"' {
				var s string
				json.Unmarshal(raw, &s)
				raw = []byte(s)
			}
			if err := json.Unmarshal(raw, &seq); err != nil {
				fatal("bad class sequence %s: %v", raw, err)
			}
			nseq++
			for k := 0; k < *reps; k++ {
				var b strings.Builder
				for _, c := range seq {
					rs := classReps[c]
					b.WriteString(rs[r.Intn(len(rs))])
				}
				run(b.String())
			}
		})
	}
	// random strings over all 16 classes, lengths up to 40 characters
	for i := 0; i < *nrand; i++ {
		var b strings.Builder
		n := r.Intn(40)
		for j := 0; j < n; j++ {
			c := 1 + r.Intn(16)
			if r.Intn(3) == 0 {
				c = []int{1, 1, 4, 2}[r.Intn(4)]
			}
			if c == 10 && r.Intn(4) != 0 {
				c = 1 // keep most inputs free of metacharacters so that acceptance is exercised
			}
			rs := classReps[c]
			b.WriteString(rs[r.Intn(len(rs))])
		}
		run(b.String())
	}
	// boundary lengths 999..1001 bytes built from mixed-width characters, and raw random bytes
	for i := 0; i < *nbound; i++ {
		target := 999 + r.Intn(3)
		var b strings.Builder
		for b.Len() < target {
			c := []int{1, 1, 1, 2, 4, 13, 11, 3, 5, 8}[r.Intn(10)]
			if i%3 == 0 {
				c = []int{1, 11}[r.Intn(2)]
			}
			rs := classReps[c]
			s := rs[r.Intn(len(rs))]
			if b.Len()+len(s) > target {
				s = "a"
			}
			b.WriteString(s)
		}
		run(b.String())
	}
	// strings over a small alphabet of lead bytes, continuation bytes, control characters, blanks and letters: deleting one
	// character can let its neighbours join into a new one, again and again
	small := []byte{0xC2, 0xC2, 0x80, 0x85, 0x9F, 0xA0, 0xE2, 0x01, 0x00, 0x7F, ' ', '\t', 'a', 'b'}
	for i := 0; i < *nrand/2; i++ {
		n := 2 + r.Intn(11)
		bs := make([]byte, n)
		for j := range bs {
			bs[j] = small[r.Intn(len(small))]
		}
		run(string(bs))
	}
	for _, fixed := range []string{"list\xc2\xc2\x01\x80\x80files", "\xc2\xc2\xc2\x01\x80\x80\x80", "a\xc2\x01\x01\x80b", "find \x00 files", "\x01 list", "\x00 \x01", " \x7f ", "x \x01\x02 y"} {
		run(fixed)
	}
	for i := 0; i < *nrand/4; i++ {
		n := r.Intn(24)
		bs := make([]byte, n)
		for j := range bs {
			bs[j] = byte(r.Intn(256))
			if strings.ContainsRune("<>|&;$", rune(bs[j])) && r.Intn(3) != 0 {
				bs[j] = 'q'
			}
		}
		run(string(bs))
	}
	// limits
	_, _ = validation.ValidateLimit(0)
	deflt, _ := validation.ValidateLimit(0)
	clamp := func(n int) int { // TLC integers are 32-bit; the clamp is monotone and keeps 0..100 exact
		if n > 2000000000 {
			return 2000000000
		}
		if n < -2000000000 {
			return -2000000000
		}
		return n
	}
	lim := func(n int) {
		tr++
		v, err := validation.ValidateLimit(n)
		w.emit(&valEv{Op: "limit", N: clamp(n), OK: err == nil, Val: clamp(v), Deflt: deflt, Tr: tr, In: []int{}, Out: []int{}})
	}
	for _, n := range []int{-2000000000, -101, -100, -2, -1, 0, 1, 2, 5, 10, 50, 99, 100, 101, 102, 1000, 2000000000,
		-1 << 63, 1<<63 - 1, 1 << 31, 1<<31 + 5, -1 << 31, 1 << 32, 1<<32 + 42, -(1 << 32) + 50, 3 << 32, 1<<32 + 100, 1<<32 + 101, 1<<16 + 7, 1 << 8, 1<<8 + 3} {
		lim(n)
	}
	for i := 0; i < 200; i++ {
		lim(r.Intn(260) - 80)
	}
	// the query of a command line is its arguments joined by blanks: the decision is the validator's decision on that string,
	// however the words are spread over the arguments (accepted = the search is recorded in the history)
	if os.Getenv("VERIF_WTF") != "" {
		dbf := filepath.Join(repoPath(), "assets", "commands.yml")
		home, _ := cliEnv()
		hist := filepath.Join(home, ".config", "wtf", "search_history.json")
		rep := func(c string, n int) string { return strings.Repeat(c, n) }
		for _, args := range [][]string{{rep("a", 600), rep("b", 600)}, {rep("a", 500), rep("b", 500)}, {rep("a", 499), rep("b", 500)}, {"copy", "files", ""},
			{"", "list"}, {rep("a", 1000)}, {rep("a", 1001)}, {"list", "fi;les"}, {"list", "files"}, {" ", "\t"}, {rep("x", 333), rep("y", 333), rep("z", 333)},
			{rep("x", 333), rep("y", 333), rep("z", 332)}} {
			for _, form := range []string{"search", "root"} {
				argv := []string{}
				if form == "search" {
					argv = append(argv, "search")
				}
				argv = append(append(argv, "--database", dbf, "--"), args...)
				os.Remove(hist)
				if _, _, err := runWtf(argv); err != nil {
					fatal("cannot run wtf: %v", err)
				}
				recorded := false
				if b, err := os.ReadFile(hist); err == nil {
					qs, _ := histQueries(b)
					recorded = len(qs) == 1
				}
				_, verr := validation.ValidateQuery(strings.Join(args, " "))
				tr++
				w.emit(&valEv{Op: "cquery", OK: verr == nil, OK2: recorded, Tr: tr, In: []int{}, Out: []int{}, Form: form, N: len(strings.Join(args, " ")), Printed: len(args)})
			}
		}
	}
	// the same rule at the command line, through both ways of starting a search (`wtf search ...` and plain `wtf ...`)
	if os.Getenv("VERIF_WTF") != "" {
		dbf := filepath.Join(repoPath(), "assets", "commands.yml")
		for _, form := range []string{"search", "root"} {
			for _, n := range []int{-7, -1, 0, 1, 7, 100, 101, 150, 500, 100000} {
				argv := []string{}
				if form == "search" {
					argv = append(argv, "search")
				}
				argv = append(argv, "--database", dbf, fmt.Sprintf("--limit=%d", n), "--", "list", "files")
				o, _, err := runWtf(argv)
				if err != nil {
					fatal("cannot run wtf: %v", err)
				}
				tr++
				w.emit(&valEv{Op: "climit", N: n, Deflt: deflt, Tr: tr, In: []int{}, Out: []int{}, Form: form,
					Printed: len(reListItem.FindAllStringSubmatch(reANSI.ReplaceAllString(o, ""), -1))})
			}
		}
	}
	for i := 0; i < 200; i++ { // wide values whose low bits look like a small limit
		hi := (r.Intn(1<<20) - 1<<19) << uint(8*(1+r.Intn(6)))
		lim(hi + r.Intn(140) - 20)
	}
	w.close()
	fmt.Printf("{\"class_sequences\": %d, \"events\": %d}\n", nseq, w.n)
	return 0
}
