package main

import (
	"encoding/json"
	"flag"
	"fmt"
	"os"
	"os/exec"
	"strings"

	"github.com/Vedant9500/WTF/internal/database"
)

func init() {
	commands["engine-scen"] = engineScen
	commands["engine-one"] = engineOne
}

type caseEv struct {
	Op      string   `json:"op"`
	Tr      int      `json:"tr"`
	Sc      scenario `json:"sc"`
	Q       string   `json:"q"`
	N       int      `json:"n"`
	Deflt   int      `json:"deflt"`
	DefltNg int      `json:"defltneg"`
	Sat     int      `json:"sat"` // results of the saturating probe under an explicit large limit
	EffLim  int      `json:"efflim"`
	Path    string   `json:"path"`
	Panic   bool     `json:"panic"`
	Note    string   `json:"note,omitempty"`
	Main    [][]int  `json:"main"`
	MainAns int      `json:"mainans"`
	Cmp     []int    `json:"cmp"`
	Attr    [][]int  `json:"attr"`
	HasOff  bool     `json:"hasoff"`
	Off     [][]int  `json:"off"`
	OffAns  int      `json:"offans"`
	ElgSub  bool     `json:"elgsub"`
	HasFst  bool     `json:"hasfirst"`
	FstAns  int      `json:"firstans"`
	FreshAn int      `json:"freshans"`
	Reps    []int    `json:"reps"`
	RepKind []string `json:"repkinds"`
	Vars    []int    `json:"vars"`
	VarQs   []string `json:"varqs"`
	Sugs    []int    `json:"sugs"`
	HasNoB  bool     `json:"hasnob"`
	NoB     [][]int  `json:"nob"`  // answer of the same search without context boosts
	BCmp    [][]int  `json:"bcmp"` // per document: <<doc, contains a boosted word, cmp(score with boosts, score without)>>
}

type caseRunner struct {
	w     *traceWriter
	in    *interner
	tr    int
	deflt map[string][2]int
	sat   map[string]int
	props map[string]bool
	reps  int
}

// measured default limit of an entry point: a saturating probe (>= 36 eligible matches) with limit 0 and -1
func (cr *caseRunner) defaults(entry string) [2]int {
	if d, ok := cr.deflt[entry]; ok {
		return d
	}
	c := getCorpus("mix")
	var d [2]int
	for i, lim := range []int{0, -1} {
		s := scenario{Entry: entry, Limit: lim, AllPlat: true, Query: "lex", Corpus: "mix"}
		if entry == "pipeline" {
			s.AllPlat = false
		}
		if entry == "cli" {
			s.NLP, s.Fuzzy, s.Thr = true, true, -30
			if lim < 0 {
				d[1] = d[0] // negative limits are rejected by the CLI's validator
				continue
			}
		}
		out, _ := runEntry(c, s, s.queryText())
		d[i] = len(out.hits)
	}
	// how many results the probe yields when asked for all of them: a default limit is a cut below that
	ss := scenario{Entry: entry, Limit: 1000, AllPlat: entry != "pipeline", Query: "lex", Corpus: "mix"}
	if entry == "cli" {
		ss.NLP, ss.Fuzzy, ss.Thr, ss.Limit = true, true, -30, 100
	}
	so, _ := runEntry(c, ss, ss.queryText())
	if cr.sat == nil {
		cr.sat = map[string]int{}
	}
	cr.sat[entry] = len(so.hits)
	cr.deflt[entry] = d
	return d
}

func (cr *caseRunner) run(s scenario) {
	c := getCorpus(s.Corpus)
	q := s.queryText()
	cr.tr++
	if s.Prime == "" && s.Entry != "cli" { // most cases are preceded by a related search on the same objects
		if k := (cr.tr * 7) % (len(primeKinds) + 2); k < len(primeKinds) {
			s.Prime = primeKinds[k]
		}
	} else if s.Prime == "none" {
		s.Prime = ""
	}
	ev := &caseEv{Op: "case", Tr: cr.tr, Sc: s, Q: q, N: len(c.db.Commands), Off: [][]int{}, Reps: []int{}, RepKind: []string{}, Vars: []int{}, VarQs: []string{}, Sugs: []int{}, NoB: [][]int{}, BCmp: [][]int{}}
	if len(q) > 80 {
		ev.Q = q[:80]
	}
	if ev.Sc.Plats == nil {
		ev.Sc.Plats = []string{}
	}
	d := cr.defaults(s.Entry)
	ev.Deflt, ev.DefltNg = d[0], d[1]
	ev.Sat = cr.sat[s.Entry]
	ev.EffLim = s.Limit
	if s.Limit < 1 {
		ev.EffLim = d[0]
	}
	out, first := runEntry(c, s, q)
	if out.panic != "" {
		ev.Panic, ev.Note = true, out.panic
	}
	ev.Main = cr.in.abstractHits(c, out.hits)
	ev.MainAns = cr.in.answerID(c, out.hits)
	ev.Cmp = cmpSeq(out.hits)
	ev.Attr = cr.in.attrs(c, s, q, out.hits)
	for i := range out.attr {
		if out.attr[i] != nil && i < len(ev.Attr) {
			ev.Attr[i] = out.attr[i]
		}
	}
	ev.Path = out.path
	if first != nil {
		ev.HasFst = true
		ev.FstAns = cr.in.answerID(c, first.hits)
		fs := s
		fs.Entry = "universal"
		fo, _ := runEntry(c, fs, q)
		ev.FreshAn = cr.in.answerID(c, fo.hits)
	}
	// fuzzy-off twin (C07, and path classification)
	if s.Fuzzy && s.Entry != "cli" {
		t := s
		t.Fuzzy = false
		if t.Entry == "cached" || t.Entry == "monitored" {
			t.Entry = "universal"
		}
		to, _ := runEntry(c, t, q)
		ev.HasOff = true
		ev.Off = cr.in.abstractHits(c, to.hits)
		ev.OffAns = cr.in.answerID(c, to.hits)
	}
	if ev.Path == "" || ev.Path == "cached" {
		switch {
		case len(out.hits) == 0:
			ev.Path = "empty"
		case ev.HasOff && len(ev.Off) == 0:
			ev.Path = "fuzzy"
		case s.Entry == "cli" && len(out.hits) > 0 && !isLexicalAnswer(c, s, q):
			ev.Path = "fuzzy"
		default:
			ev.Path = "lexical"
		}
		if out.path == "cached" {
			ev.Path = "cached-" + ev.Path
		}
	}
	ev.ElgSub = certainlyEligibleSubseq(c, s, q)
	// repeats (C02): same process, freshly re-loaded copy, separate process
	if cr.props["C02"] {
		// the repetitions are not preceded by a priming search: whatever the long-lived object was asked before, and a
		// copy that was asked nothing, must all answer alike
		s := s
		s.Prime = ""
		for i := 0; i < cr.reps; i++ {
			ro, _ := runEntry(c, s, q)
			ev.Reps = append(ev.Reps, cr.in.answerID(c, ro.hits))
			ev.RepKind = append(ev.RepKind, "again")
		}
		if c.file != "" && s.Corpus != "shipped" {
			if db2, err := database.LoadDatabase(c.file); err == nil {
				c2 := wrapCorpus(c.name, db2, c.cmds, c.file)
				ro, _ := runEntry(c2, s, q)
				// identity by content, in the numbering of the long-lived copy
				ev.Reps = append(ev.Reps, cr.in.answerIDIn(c, c2, ro.hits))
				ev.RepKind = append(ev.RepKind, "reloaded")
			}
		} else if c.fresh != nil { // same content, built again: has never answered a query
			c2 := wrapCorpus(c.name, c.fresh(), nil, "")
			ro, _ := runEntry(c2, s, q)
			ev.Reps = append(ev.Reps, cr.in.answerIDIn(c, c2, ro.hits))
			ev.RepKind = append(ev.RepKind, "reloaded")
		}
		// "did you mean" suggestions, repeated and on a re-loaded copy
		if len(out.hits) == 0 || cr.tr%7 == 0 {
			sug := func(db *database.Database) int {
				defer func() { recover() }()
				return cr.in.str(cr.in.answer, "sug:"+strings.Join(db.GetSuggestions(q, 5), "\x00"))
			}
			for i := 0; i < 4; i++ {
				ev.Sugs = append(ev.Sugs, sug(c.db))
			}
			if c.file != "" && s.Corpus != "shipped" {
				if db2, err := database.LoadDatabase(c.file); err == nil {
					ev.Sugs = append(ev.Sugs, sug(db2))
				}
			}
		}
		if cr.tr%25 == 1 { // a separate process now and then (expensive)
			if a, ok := childAnswer(s); ok {
				ev.Reps = append(ev.Reps, cr.in.str(cr.in.answer, a))
				ev.RepKind = append(ev.RepKind, "process")
			}
		}
	}
	// boost-free twin (C13): candidates and per-document score comparison
	if cr.props["C13"] && (s.Boost || s.BoostV > 0) && s.Entry != "cli" {
		t := s
		t.Boost, t.BoostV = false, 0
		to, _ := runEntry(c, t, q)
		ev.HasNoB = true
		ev.NoB = cr.in.abstractHits(c, to.hits)
		base := map[int]float64{}
		for _, h := range to.hits {
			if d, ok := c.idx[h.cmd]; ok {
				base[d] = h.score
			}
		}
		boosted := s.options().ContextBoosts
		for _, h := range out.hits {
			d, ok := c.idx[h.cmd]
			if !ok {
				continue
			}
			b0, in0 := base[d]
			if !in0 {
				continue
			}
			contains := 0
			toks := docTokens(&c.db.Commands[d])
			for w, f := range boosted {
				if f != 1.0 && toks[strings.ToLower(w)] {
					contains = 1
				}
			}
			cmp := 0
			switch {
			case h.score > b0:
				cmp = 1
			case h.score < b0:
				cmp = -1
			case h.score != b0:
				cmp = -2
			}
			ev.BCmp = append(ev.BCmp, []int{d, contains, cmp})
		}
	}
	// case re-spellings of the query (C20), engine level
	if cr.props["C20"] {
		variants := caseVariants(q)
		if s.Entry == "cli" { // spare white space is squeezed by the command line front end
			variants = append(variants, "  "+q, q+"   ", strings.ReplaceAll(q, " ", "   "), "\t"+strings.ReplaceAll(q, " ", " \t ")+"\n",
				" "+strings.ToUpper(strings.ReplaceAll(q, " ", "  "))+" ")
		}
		for _, vq := range variants {
			vs := s
			vs.Raw, vs.Query = vq, "raw"
			vs.PrimeQ = q
			vo, _ := runEntry(c, vs, vq)
			ev.Vars = append(ev.Vars, cr.in.answerID(c, vo.hits))
			ev.VarQs = append(ev.VarQs, vq)
		}
	}
	cr.w.emit(ev)
}

func isLexicalAnswer(c *corpusT, s scenario, q string) bool {
	t := s
	t.Entry, t.Fuzzy = "universal", false
	to, _ := runEntry(c, t, q)
	return len(to.hits) > 0
}

// caseVariants: re-spellings r -> r' with ToLower(r') == ToLower(r) (the admissible relation of C20)
func caseVariants(q string) []string {
	up := strings.ToUpper(q)
	title := strings.Title(q) //nolint
	alt := []rune(q)
	for i, r := range alt {
		if i%2 == 0 {
			alt[i] = []rune(strings.ToUpper(string(r)))[0]
		}
	}
	cands := []string{up, title, string(alt)}
	// code points whose lower case is an ASCII/Latin letter: KELVIN SIGN -> k, ANGSTROM SIGN -> å
	if strings.ContainsAny(q, "kK") {
		cands = append(cands, strings.NewReplacer("k", "\u212a", "K", "\u212a").Replace(q))
	}
	if strings.ContainsAny(q, "åÅ") {
		cands = append(cands, strings.NewReplacer("å", "\u212b", "Å", "\u212b").Replace(q))
	}
	out := []string{}
	seen := map[string]bool{q: true}
	for _, v := range cands {
		if seen[v] || strings.ToLower(v) != strings.ToLower(q) || len([]rune(v)) != len([]rune(q)) {
			continue
		}
		ok := true
		vr, qr := []rune(v), []rune(q)
		for i := range vr {
			if strings.ToLower(string(vr[i])) != strings.ToLower(string(qr[i])) {
				ok = false
			}
		}
		if ok {
			seen[v] = true
			out = append(out, v)
		}
	}
	return out
}

// childAnswer runs the scenario in a separate process and returns its answer string.
func childAnswer(s scenario) (string, bool) {
	self, _ := os.Executable()
	b, _ := json.Marshal(s)
	cmd := exec.Command(self, "engine-one", string(b))
	cmd.Env = os.Environ()
	out, err := cmd.Output()
	if err != nil {
		return "", false
	}
	// (the engine may print warnings of its own, e.g. when it falls back to the built-in database)
	for _, line := range strings.Split(string(out), "\n") {
		if strings.HasPrefix(line, "ANSWER:") {
			return strings.TrimPrefix(line, "ANSWER:"), true
		}
	}
	return "", false
}

func engineOne(args []string) int {
	var s scenario
	if err := json.Unmarshal([]byte(args[0]), &s); err != nil {
		fatal("bad scenario: %v", err)
	}
	c := getCorpus(s.Corpus)
	defer os.RemoveAll(tmpDir())
	out, _ := runEntry(c, s, s.queryText())
	var b strings.Builder
	in := newInterner()
	_ = in
	for _, h := range out.hits {
		d, ok := c.idx[h.cmd]
		if !ok {
			d = -1
		}
		fmt.Fprintf(&b, "%d:%x;", d, mathBits(h.score))
	}
	fmt.Println("ANSWER:" + b.String())
	return 0
}

func engineScen(args []string) int {
	fs := flag.NewFlagSet("engine-scen", flag.ExitOnError)
	in := fs.String("in", "", "scenarios (json lines)")
	out := fs.String("out", "", "trace")
	props := fs.String("props", "", "comma separated property ids enabling the twin runs they need")
	reps := fs.Int("reps", 5, "in-process repetitions for C02")
	fs.Parse(args)
	cr := &caseRunner{w: newTraceWriter(*out), in: newInterner(), deflt: map[string][2]int{}, props: map[string]bool{}, reps: *reps}
	for _, p := range strings.Split(*props, ",") {
		cr.props[p] = true
	}
	defer os.RemoveAll(tmpDir())
	n := 0
	readJSONLines(*in, func(raw []byte) {
		if raw[0] == '"' {
			var s string
			json.Unmarshal(raw, &s)
			raw = []byte(s)
		}
		var s scenario
		if err := json.Unmarshal(raw, &s); err != nil {
			fatal("bad scenario %s: %v", raw, err)
		}
		cr.run(s)
		n++
	})
	cr.w.close()
	fmt.Printf("{\"cases\": %d, \"events\": %d}\n", n, cr.w.n)
	return 0
}
