package main

import (
	"flag"
	"fmt"
	"math"
	"os"
	"path/filepath"
	"strings"

	"gopkg.in/yaml.v3"

	"github.com/Vedant9500/WTF/internal/database"
)

func init() { commands["engine-index"] = engineIndex }

type idxEv struct {
	Op     string    `json:"op"`
	Tr     int       `json:"tr"`
	Q      string    `json:"q"`
	Corpus string    `json:"corpus"`
	NTok   int       `json:"ntok"`
	Res    []int     `json:"res"`
	Ref    []int     `json:"ref"`    // reference scan by the harness
	First4 []int     `json:"first4"` // reference scan for the first four content words
	Small  bool      `json:"small"`  // token-level data present: TLC recomputes the scan itself
	Docs   [][][]int `json:"docs"`   // per document, per field (command, description, keywords, tags): token ids
	QT     []int     `json:"qt"`     // query token ids
	SErr   int       `json:"serr"`   // results whose score deviates from the BM25F sum recomputed from the texts (rel 1e-9)
	Boost  bool      `json:"boost"`
	Panic  bool      `json:"panic"`
	Hist   []string  `json:"hist"`
	NLP    bool      `json:"nlp"`
	Ans    int       `json:"ans"`
	Fresh  int       `json:"fresh"`
	Note   string    `json:"note,omitempty"`
}

func (e *idxEv) fill() *idxEv {
	if e.Res == nil {
		e.Res = []int{}
	}
	if e.Ref == nil {
		e.Ref = []int{}
	}
	if e.First4 == nil {
		e.First4 = []int{}
	}
	if e.Docs == nil {
		e.Docs = [][][]int{}
	}
	if e.QT == nil {
		e.QT = []int{}
	}
	if e.Hist == nil {
		e.Hist = []string{}
	}
	return e
}

// fields of a command as the index sees them (lower-cased caches, keywords / tags joined by a space)
func fieldTokens(c *database.Command) [4][]string {
	return [4][]string{refTokens(strings.ToLower(c.Command)), refTokens(strings.ToLower(c.Description)),
		refTokens(strings.ToLower(strings.Join(c.Keywords, " "))), refTokens(strings.ToLower(strings.Join(c.Tags, " ")))}
}

type refIndex struct {
	toks   [][4][]string
	df     map[string]int
	avg    [4]float64
	n      int
	params database.VerifBM25F
}

func buildRef(cmds []database.Command) *refIndex {
	ri := &refIndex{df: map[string]int{}, n: len(cmds), params: database.VerifBM25FParams()}
	var sum [4]int
	for i := range cmds {
		ft := fieldTokens(&cmds[i])
		ri.toks = append(ri.toks, ft)
		seen := map[string]bool{}
		for f := 0; f < 4; f++ {
			sum[f] += len(ft[f])
			for _, t := range ft[f] {
				if !seen[t] {
					seen[t] = true
					ri.df[t]++
				}
			}
		}
	}
	for f := 0; f < 4; f++ {
		if ri.n > 0 {
			ri.avg[f] = float64(sum[f]) / float64(ri.n)
		}
	}
	return ri
}

// score: the documented field-weighted BM25F sum, recomputed directly from the texts
func (ri *refIndex) score(d int, terms []string, boosts map[string]float64) (float64, bool) {
	p := ri.params
	w := [4]float64{p.WCmd, p.WDesc, p.WKeys, p.WTags}
	b := [4]float64{p.BCmd, p.BDesc, p.BKeys, p.BTags}
	total, hit := 0.0, false
	for _, t := range terms {
		df := ri.df[t]
		if df == 0 {
			continue
		}
		var per float64
		present := false
		for f := 0; f < 4; f++ {
			tf := 0
			for _, x := range ri.toks[d][f] {
				if x == t {
					tf++
				}
			}
			if tf == 0 {
				continue
			}
			present = true
			avg := ri.avg[f]
			if avg <= 0 {
				avg = 1
			}
			norm := (1 - b[f]) + b[f]*(float64(len(ri.toks[d][f]))/avg)
			tfw := w[f] * float64(tf)
			per += (tfw * (p.K1 + 1)) / (tfw + p.K1*norm)
		}
		if !present {
			continue
		}
		hit = true
		idf := math.Log((float64(ri.n)-float64(df)+0.5)/(float64(df)+0.5) + 1)
		boost := 1.0
		if bv, ok := boosts[t]; ok && bv > 0 {
			boost = bv
		}
		total += idf * boost * per
	}
	return total, hit
}

var hostileWords = []string{"alpha", "beta", "gamma", "delta", "tar", "x", "the", "über", "naïve", "日本語", "c++", "foo-bar", "a.b", "ls", "42", "ΑΒΓ", "é", "ﬁx",
	// capitals outside ASCII whose lower case is an ASCII letter (KELVIN SIGN, dotted capital I), in words without any ASCII capital
	"\u212Aelvin", "\u0130nfo", "dis\u212A"}

func randomCommands(r interface {
	Intn(int) int
}, n int) []database.Command {
	pick := func(k int) string {
		ws := []string{}
		for i := 0; i < k; i++ {
			ws = append(ws, hostileWords[r.Intn(len(hostileWords))])
		}
		sep := []string{" ", "  ", ", ", "/", " | ", "-"}[r.Intn(6)]
		return strings.Join(ws, sep)
	}
	var out []database.Command
	for i := 0; i < n; i++ {
		c := database.Command{Command: pick(r.Intn(4)), Description: pick(r.Intn(5))}
		for k := r.Intn(3); k > 0; k-- {
			c.Keywords = append(c.Keywords, pick(1+r.Intn(2)))
		}
		for k := r.Intn(3); k > 0; k-- {
			c.Tags = append(c.Tags, pick(1))
		}
		if r.Intn(5) == 0 {
			c.Command = "" // empty field
		}
		if r.Intn(6) == 0 && len(out) > 0 {
			c = out[r.Intn(len(out))] // duplicate entry
		} else if r.Intn(5) == 0 && len(out) > 0 {
			// a near-duplicate: an earlier entry with exactly one field changed (what a cache keyed on "the text" of an
			// entry must not confuse)
			c = out[r.Intn(len(out))]
			switch r.Intn(4) {
			case 0:
				c.Tags = []string{pick(1), pick(1)}
			case 1:
				c.Keywords = []string{pick(1)}
			case 2:
				c.Description = pick(2)
			default:
				c.Command = pick(2)
			}
		}
		out = append(out, c)
	}
	return out
}

func writeYAML(path string, cmds []database.Command) {
	b, _ := yaml.Marshal(cmds)
	if len(cmds) == 0 {
		b = []byte("[]\n")
	}
	os.WriteFile(path, b, 0o644)
}

func engineIndex(args []string) int {
	fs := flag.NewFlagSet("engine-index", flag.ExitOnError)
	out := fs.String("out", "", "trace")
	nscan := fs.Int("scans", 600, "scan-equivalence cases")
	nhist := fs.Int("hists", 150, "history cases")
	fs.Parse(args)
	r := seededRand(3)
	w := newTraceWriter(*out)
	defer os.RemoveAll(tmpDir())
	in := newInterner()
	tr := 0
	tokIDs := map[string]int{}
	tid := func(s string) int {
		if id, ok := tokIDs[s]; ok {
			return id
		}
		tokIDs[s] = len(tokIDs) + 1
		return tokIDs[s]
	}
	shipped := getCorpus("shipped")
	shippedRef := buildRef(shipped.db.Commands)
	// ---- (a) the index answers like a scan; scores equal the BM25F sum
	for i := 0; i < *nscan; i++ {
		tr++
		ev := &idxEv{Op: "scan", Tr: tr}
		var c *corpusT
		var ri *refIndex
		if i%4 == 3 {
			c, ri, ev.Corpus = shipped, shippedRef, "shipped"
		} else {
			c = loadCorpus("rnd", randomCommands(r, 1+r.Intn(6)))
			ri, ev.Corpus, ev.Small = buildRef(c.db.Commands), "random", true
		}
		// query: words of the corpus, hostile words, sometimes long
		nw := 1 + r.Intn(5)
		if r.Intn(8) == 0 {
			nw = 11 + r.Intn(4)
		}
		var qw []string
		for k := 0; k < nw; k++ {
			if r.Intn(3) > 0 && len(c.db.Commands) > 0 {
				d := r.Intn(len(c.db.Commands))
				ft := ri.toks[d]
				all := append(append(append(append([]string{}, ft[0]...), ft[1]...), ft[2]...), ft[3]...)
				if len(all) > 0 {
					qw = append(qw, all[r.Intn(len(all))])
					continue
				}
			}
			qw = append(qw, hostileWords[r.Intn(len(hostileWords))])
		}
		q := strings.Join(qw, " ")
		if r.Intn(6) == 0 {
			q = strings.ToUpper(q)
		}
		ev.Q = q
		o := database.SearchOptions{Limit: len(c.db.Commands) + 5, AllPlatforms: true}
		if r.Intn(3) == 0 && len(qw) > 0 {
			// (factors above and below 1; zero and negative values mean "no boost")
			o.ContextBoosts = map[string]float64{strings.ToLower(qw[0]): []float64{2.0, 0.5, 0.1, 1.0, 3.5}[r.Intn(5)], "absent": 3.0}
			if len(qw) > 1 {
				o.ContextBoosts[strings.ToLower(qw[len(qw)-1])] = []float64{0.25, 0, -1, 1.7}[r.Intn(4)]
			}
			ev.Boost = true
		}
		func() {
			defer func() {
				if rec := recover(); rec != nil {
					ev.Panic, ev.Note = true, fmt.Sprint(rec)
				}
			}()
			terms := refTokens(strings.ToLower(q))
			ev.NTok = len(terms)
			res := c.db.SearchUniversal(q, o)
			ev.Res = docsOf(c, res)
			for d := range c.db.Commands {
				if _, hit := ri.score(d, terms, nil); hit {
					ev.Ref = append(ev.Ref, d)
				}
				f4 := terms
				if len(f4) > 4 {
					f4 = f4[:4]
				}
				if _, hit := ri.score(d, f4, nil); hit {
					ev.First4 = append(ev.First4, d)
				}
			}
			if len(terms) <= 10 {
				for _, h := range res {
					d, ok := c.idx[h.Command]
					if !ok {
						ev.SErr++
						continue
					}
					want, _ := ri.score(d, terms, o.ContextBoosts)
					if math.Abs(h.Score-want) > 1e-9*math.Max(1, math.Abs(want)) {
						ev.SErr++
						if ev.Note == "" {
							ev.Note = fmt.Sprintf("doc %d: score %.12g, BM25F sum %.12g", d, h.Score, want)
						}
					}
				}
			}
			if ev.Small {
				for d := range c.db.Commands {
					var fields [][]int
					for f := 0; f < 4; f++ {
						ids := []int{}
						for _, t := range ri.toks[d][f] {
							ids = append(ids, tid(t))
						}
						fields = append(fields, ids)
					}
					ev.Docs = append(ev.Docs, fields)
				}
				for _, t := range terms {
					ev.QT = append(ev.QT, tid(t))
				}
			}
		}()
		w.emit(ev.fill())
	}
	// ---- (b) histories: load / merge / replace / grow, then search; compare with a freshly loaded database
	dir := tmpDir()
	for i := 0; i < *nhist; i++ {
		base := mixCommands()
		if i%3 == 1 {
			base = randomCommands(r, 4+r.Intn(8))
		}
		main := base[:len(base)/2]
		rest := base[len(base)/2:]
		mf, pf := filepath.Join(dir, fmt.Sprintf("h%dm.yml", i)), filepath.Join(dir, fmt.Sprintf("h%dp.yml", i))
		writeYAML(mf, main)
		var hist []string
		var db *database.Database
		var err error
		final := append([]database.Command{}, main...)
		if r.Intn(2) == 0 {
			writeYAML(pf, rest[:len(rest)/2])
			db, err = database.LoadDatabaseWithPersonal(mf, pf)
			final = append(final, rest[:len(rest)/2]...)
			hist = append(hist, "merge")
		} else {
			db, err = database.LoadDatabase(mf)
			hist = append(hist, "load")
		}
		if err != nil {
			fatal("history load: %v", err)
		}
		cdb := database.NewCachedDatabase(db)
		// every other history is asked through the caching wrapper at the end: on its way the wrapper answers the same
		// questions (so that answers are stored), and its cache is switched off and on around replacements
		viaCache := i%2 == 0
		finalQs := []string{"frobnicate widget", "delete item", "alpha beta", "widget number question"}
		for k := r.Intn(4) + b2i(viaCache)*2; k > 0; k-- {
			choice := r.Intn(3)
			if viaCache {
				choice = []int{0, 0, 3, 4, 5}[r.Intn(5)]
			}
			switch choice {
			case 3:
				for _, q := range finalQs {
					for _, nlp := range []bool{false, true} {
						cdb.SearchWithOptionsAndCache(q, database.SearchOptions{Limit: 8, UseNLP: nlp, AllPlatforms: true})
					}
				}
				hist = append(hist, "cachedsearch")
			case 4:
				cdb.EnableCache(false)
				hist = append(hist, "cacheoff")
			case 5:
				cdb.EnableCache(true)
				hist = append(hist, "cacheon")
			case 0: // replace by a list of the same length (rotated) or a different one
				nl := append([]database.Command{}, final...)
				if len(nl) > 1 {
					nl = append(nl[1:], nl[0])
				}
				if r.Intn(2) == 0 {
					nl = append([]database.Command{}, rest...)
				}
				cdb.UpdateDatabase(nl)
				final = nl
				hist = append(hist, "replace")
			case 1: // grow at run time
				extra := rest[r.Intn(len(rest)):]
				db.Commands = append(db.Commands, extra...)
				final = append(final, extra...)
				hist = append(hist, "grow")
			case 2: // a search in between (triggers lazy rebuilds)
				db.SearchUniversal("frobnicate widget", database.SearchOptions{Limit: 3, UseNLP: r.Intn(2) == 0})
				hist = append(hist, "search")
			}
		}
		ff := filepath.Join(dir, fmt.Sprintf("h%df.yml", i))
		writeYAML(ff, final)
		fresh, err := database.LoadDatabase(ff)
		if err != nil {
			fatal("fresh load: %v", err)
		}
		cNow := wrapCorpus("hist", db, nil, "")
		cFresh := wrapCorpus("hist", fresh, nil, "")
		if viaCache {
			cdb.EnableCache(true)
			hist = append(hist, "cacheon", "via-cache")
		}
		for _, q := range finalQs {
			for _, nlp := range []bool{false, true} {
				tr++
				ev := &idxEv{Op: "hist", Tr: tr, Q: q, NLP: nlp, Hist: hist}
				func() {
					defer func() {
						if rec := recover(); rec != nil {
							ev.Panic, ev.Note = true, fmt.Sprint(rec)
						}
					}()
					o := database.SearchOptions{Limit: 8, UseNLP: nlp, AllPlatforms: true}
					if viaCache {
						ev.Ans = in.answerID(cNow, toHits(cdb.SearchWithOptionsAndCache(q, o)))
					} else {
						ev.Ans = in.answerID(cNow, toHits(db.SearchUniversal(q, o)))
					}
					ev.Fresh = in.answerID(cFresh, toHits(fresh.SearchUniversal(q, o)))
				}()
				w.emit(ev.fill())
			}
		}
		os.Remove(mf)
		os.Remove(pf)
		os.Remove(ff)
	}
	w.close()
	fmt.Printf("{\"events\": %d}\n", w.n)
	return 0
}
