package main

import (
	"flag"
	"fmt"
	"math"
	"sort"
	"sync"
	"time"

	"github.com/Vedant9500/WTF/internal/database"
	"github.com/Vedant9500/WTF/internal/metrics"
)

func init() {
	commands["metrics-random"] = metricsRandom
}

type metEv struct {
	Op       string  `json:"op"`
	Kind     string  `json:"kind"`
	Name     int     `json:"name"`
	Tags     [][]int `json:"tags"`
	SID      int     `json:"sid"`
	N        int64   `json:"n"`
	V        int     `json:"v"`
	Count    int64   `json:"count"`
	Sum      int64   `json:"sum"`
	Pcts     [][]int `json:"pcts"`
	Hit      bool    `json:"hit"`
	Searches []int   `json:"searches"`
	Hits     int     `json:"hits"`
	Misses   int     `json:"misses"`
	DurCount int     `json:"durcount"`
	QLCount  int     `json:"qlcount"`
	DB       [][]int `json:"db"`
	G        int     `json:"g"`
	K        int     `json:"k"`
	Total    int64   `json:"total"`
	Series   int     `json:"series"`
	HCount   int64   `json:"hcount"`
	Tr       int     `json:"tr"`
}

func (e *metEv) fill() *metEv {
	if e.Tags == nil {
		e.Tags = [][]int{}
	}
	if e.Pcts == nil {
		e.Pcts = [][]int{}
	}
	if e.Searches == nil {
		e.Searches = []int{}
	}
	if e.DB == nil {
		e.DB = [][]int{}
	}
	return e
}

// names, tag names and values avoid the registry's own delimiters ':' and '=': two different identities whose
// concatenated keys coincide (name "a:b=c" vs name "a" with tag b=c) are outside the statement of C18
var metNames = []string{"requests_total", "latency", "a", "ab", "", "latency_duration", "a_duration"} // (a timer keeps its observations in "<name>_duration")
var metKeys = []string{"method", "status", "b", "zone", "kx"}
var metVals = []string{"GET", "200", "c", "", "vw"}

type metDriver struct {
	w    *traceWriter
	c    *metrics.Collector
	sids map[string]int
	tr   int
}

func (d *metDriver) sid(p interface{}) int {
	k := fmt.Sprintf("%p", p)
	if id, ok := d.sids[k]; ok {
		return id
	}
	id := len(d.sids) + 1
	d.sids[k] = id
	return id
}

func (d *metDriver) emit(e *metEv) {
	e.Tr = d.tr
	d.w.emit(e.fill())
}

// build a fresh map (new allocation, random insertion order) for the tag pairs
func tagMap(r interface{ Perm(int) []int }, pairs [][]int) map[string]string {
	if len(pairs) == 0 {
		return nil
	}
	m := make(map[string]string)
	for _, i := range r.Perm(len(pairs)) {
		m[metKeys[pairs[i][0]]] = metVals[pairs[i][1]]
	}
	return m
}

func metricsRandom(args []string) int {
	fs := flag.NewFlagSet("metrics-random", flag.ExitOnError)
	out := fs.String("out", "", "trace")
	ntr := fs.Int("traces", 100, "traces")
	length := fs.Int("len", 60, "ops")
	fs.Parse(args)
	r := seededRand(18)
	d := &metDriver{w: newTraceWriter(*out)}
	for t := 0; t < *ntr; t++ {
		d.tr++
		d.c = metrics.NewCollector()
		d.sids = map[string]int{}
		d.emit(&metEv{Op: "reset"})
		var counters []*metrics.Counter
		var hists []*metrics.Histogram
		scale := 1.0
		if t%2 == 1 {
			scale = 1024
		}
		if t%3 == 2 {
			if t%2 == 0 {
				monitoredDBTrace(d, r, *length)
			} else {
				monitorTrace(d, r, *length)
			}
			continue
		}
		for i := 0; i < *length; i++ {
			switch x := r.Intn(100); {
			case i > 10 && i%23 == 11: // the whole collector is reset: every series starts afresh, also the counter asked for last
				name, pairs := r.Intn(len(metNames)), [][]int{{0, r.Intn(len(metVals))}}
				c0 := d.c.Counter(metNames[name], tagMap(r, pairs))
				d.emit(&metEv{Op: "get", Kind: "counter", Name: name, Tags: pairs, SID: d.sid(c0)})
				c0.Add(5)
				d.emit(&metEv{Op: "add", SID: d.sid(c0), N: 5})
				d.c.Reset()
				counters, hists = nil, nil
				d.emit(&metEv{Op: "reset"})
				c1 := d.c.Counter(metNames[name], tagMap(r, pairs))
				d.emit(&metEv{Op: "get", Kind: "counter", Name: name, Tags: pairs, SID: d.sid(c1)})
				d.emit(&metEv{Op: "cval", SID: d.sid(c1), N: c1.Value()})
				c1.Inc()
				d.emit(&metEv{Op: "add", SID: d.sid(c1), N: 1})
				counters = append(counters, c1)
			case x < 45 || len(counters) == 0 || len(hists) == 0:
				// ask for a series by identity, several times, with freshly built tag maps
				name := r.Intn(len(metNames))
				nt := r.Intn(5)
				perm := r.Perm(len(metKeys))[:nt]
				sort.Ints(perm)
				pairs := make([][]int, 0, nt)
				for _, k := range perm {
					pairs = append(pairs, []int{k, r.Intn(len(metVals))})
				}
				kind := []string{"counter", "histogram", "timer", "gauge"}[r.Intn(4)]
				reps := 1 + r.Intn(24)
				for j := 0; j < reps; j++ {
					tm := tagMap(r, pairs)
					ev := &metEv{Op: "get", Kind: kind, Name: name, Tags: pairs}
					switch kind {
					case "counter":
						c := d.c.Counter(metNames[name], tm)
						ev.SID = d.sid(c)
						counters = append(counters, c)
					case "histogram":
						h := d.c.Histogram(metNames[name], tm)
						ev.SID = d.sid(h)
						hists = append(hists, h)
					case "timer":
						tmr := d.c.Timer(metNames[name], tm)
						ev.SID = d.sid(tmr.Histogram())
						hists = append(hists, tmr.Histogram())
					case "gauge":
						ev.SID = d.sid(d.c.Gauge(metNames[name], tm))
					}
					d.emit(ev)
				}
			case x < 60:
				c := counters[r.Intn(len(counters))]
				n := int64(1)
				if r.Intn(3) == 0 {
					n = int64(r.Intn(5))
					c.Add(n)
				} else {
					c.Inc()
				}
				d.emit(&metEv{Op: "add", SID: d.sid(c), N: n})
			case x < 66:
				c := counters[r.Intn(len(counters))]
				d.emit(&metEv{Op: "cval", SID: d.sid(c), N: c.Value()})
			case x < 70: // a counter set back to zero (more than once in a trace)
				c := counters[r.Intn(len(counters))]
				c.Reset()
				d.emit(&metEv{Op: "creset", SID: d.sid(c)})
			case x < 88:
				h := hists[r.Intn(len(hists))]
				v := []int{0, 1, 2, 3, 7, 10, 11, 60, 250, 999, 10000, 10001, 500000}[r.Intn(13)]
				// (every other trace observes v/1024 - an exact binary fraction, as durations in milliseconds are - and reads
				// the sum back in units of 1/1024)
				h.Observe(float64(v) / scale)
				d.emit(&metEv{Op: "observe", SID: d.sid(h), V: v})
			default:
				h := hists[r.Intn(len(hists))]
				ev := &metEv{Op: "hread", SID: d.sid(h), Count: h.Count(), Sum: int64(math.Round(h.Sum() * scale))}
				if h.Sum()*scale != math.Round(h.Sum()*scale) {
					ev.Sum = -1 // not the exact sum of the observations
				}
				for _, p := range []int{0, 1, 25, 50, 75, 90, 95, 99, 100} {
					ev.Pcts = append(ev.Pcts, []int{p, int(h.Percentile(float64(p))*10 + 0.5)})
				}
				d.emit(ev)
			}
		}
		// concurrent bursts: g goroutines released together make the very first request for a fresh identity
		for round := 0; round < 60; round++ {
			g, k := 2+r.Intn(7), 1+r.Intn(4)
			name := fmt.Sprintf("burst%d", round)
			start := make(chan struct{})
			var wg sync.WaitGroup
			for i := 0; i < g; i++ {
				wg.Add(1)
				go func() {
					defer wg.Done()
					<-start
					for j := 0; j < k; j++ {
						d.c.Counter(name, map[string]string{"a": "1", "b": "2"}).Inc()
						d.c.Histogram(name+"h", map[string]string{"a": "1"}).Observe(1)
					}
				}()
			}
			close(start)
			wg.Wait()
			total, hc, nser := int64(0), int64(0), 0
			for _, m := range d.c.GetAllMetrics() {
				if m.Name == name {
					total += int64(m.Value)
					nser++
				}
				if m.Name == name+"h_count" {
					hc += int64(m.Value)
				}
			}
			d.emit(&metEv{Op: "conc", G: g, K: k, Total: total, Series: nser, HCount: hc})
		}
	}
	d.w.close()
	fmt.Printf("{\"traces\": %d, \"events\": %d}\n", *ntr, d.w.n)
	return 0
}

// monitorTrace drives a PerformanceMonitor and reads its totals back from the report.
func monitorTrace(d *metDriver, r interface{ Intn(int) int }, length int) {
	pm := metrics.NewPerformanceMonitor()
	ops := []string{"load", "merge", "save"}
	for i := 0; i < length; i++ {
		switch x := r.Intn(100); {
		case x < 45:
			hit := r.Intn(2) == 0
			pm.RecordSearchOperation(time.Duration(r.Intn(5000))*time.Microsecond, r.Intn(10), hit, r.Intn(40))
			d.emit(&metEv{Op: "recsearch", Hit: hit})
		case x < 80:
			o := r.Intn(len(ops))
			s := r.Intn(2) == 0
			pm.RecordDatabaseOperation(ops[o], time.Duration(r.Intn(5000))*time.Microsecond, s)
			d.emit(&metEv{Op: "recdb", Name: o, Hit: s})
		case x < 88: // the switch: nothing is recorded while off, and switching it (on again, too) loses nothing
			b := r.Intn(2) == 0
			pm.Enable(b)
			d.emit(&metEv{Op: "menable", Hit: b})
			if r.Intn(2) == 0 {
				emitReport(d, pm.GetPerformanceReport(), ops)
			}
		default:
			emitReport(d, pm.GetPerformanceReport(), ops)
		}
	}
}

// emitReport reads the totals back from a performance report
func emitReport(d *metDriver, rep metrics.PerformanceReport, ops []string) {
	ev := &metEv{Op: "report", Searches: []int{0, 0}}
	dbc := map[[2]int]int{}
	dbd := map[[2]int]int{}
	for _, m := range rep.ApplicationMetrics {
		b2i := func(s string) int {
			if s == "true" {
				return 1
			}
			return 0
		}
		switch m.Name {
		case "searches_total":
			ev.Searches[b2i(m.Tags["cache_hit"])] += int(m.Value)
		case "cache_hits_total":
			ev.Hits += int(m.Value)
		case "cache_misses_total":
			ev.Misses += int(m.Value)
		case "search_duration_duration_count":
			ev.DurCount += int(m.Value)
		case "query_length_count":
			ev.QLCount += int(m.Value)
		case "database_operations_total", "database_operation_duration_duration_count":
			oi := -1
			for j, o := range ops {
				if o == m.Tags["operation"] {
					oi = j
				}
			}
			k := [2]int{oi, b2i(m.Tags["success"])}
			if m.Name == "database_operations_total" {
				dbc[k] += int(m.Value)
			} else {
				dbd[k] += int(m.Value)
			}
		}
	}
	keys := make([][2]int, 0)
	for k := range dbc {
		keys = append(keys, k)
	}
	sort.Slice(keys, func(i, j int) bool { return keys[i][0]*2+keys[i][1] < keys[j][0]*2+keys[j][1] })
	for _, k := range keys {
		ev.DB = append(ev.DB, []int{k[0], k[1], dbc[k], dbd[k]})
	}
	d.emit(ev)
}

// monitoredDBTrace: the totals of a real MonitoredDatabase (searches through both monitored entry points, the result
// cache switched on and off, invalidations, database replacements) equal the number of operations made
func monitoredDBTrace(d *metDriver, r interface{ Intn(int) int }, length int) {
	c := getCorpus("mix")
	db, err := database.LoadDatabase(c.file)
	if err != nil {
		fatal("%v", err)
	}
	mdb := database.VerifNewMonitoredDatabase(db, []int{1, 3, 50}[r.Intn(3)], 0)
	ops := []string{"load", "merge", "save"}
	qs := []string{"frobnicate widget", "frobnicte", "widget", "zq1 qqqqzzzz", "qqqqzzzz", "delete item"}
	for i := 0; i < length; i++ {
		switch x := r.Intn(100); {
		case x < 55:
			q := qs[r.Intn(len(qs))]
			if r.Intn(2) == 0 {
				mdb.SearchWithMonitoring(q, 1+r.Intn(6))
			} else {
				mdb.SearchWithOptionsAndMonitoring(q, database.SearchOptions{Limit: 1 + r.Intn(6), UseNLP: r.Intn(2) == 0, UseFuzzy: r.Intn(2) == 0})
			}
			d.emit(&metEv{Op: "msearch"})
			emitReport(d, mdb.GetPerformanceReport(), ops)
		case x < 70:
			mdb.EnableCache(r.Intn(2) == 0)
		case x < 78:
			mdb.InvalidateCache()
		case x < 86:
			mdb.LoadDatabaseWithMonitoring(append([]database.Command(nil), c.db.Commands...))
			d.emit(&metEv{Op: "recdb", Name: 0, Hit: true})
		default:
			emitReport(d, mdb.GetPerformanceReport(), ops)
		}
	}
}
