package main

import (
	"flag"
	"fmt"
	"os"
	"path/filepath"
	"strings"
	"syscall"

	"github.com/Vedant9500/WTF/internal/validation"
)

func init() { commands["perms-random"] = permsRandom }

type permEv struct {
	Op      string `json:"op"`
	Tr      int    `json:"tr"`
	Kind    string `json:"kind"`
	Mask    int    `json:"mask"`
	Mode    int    `json:"mode"`
	There   bool   `json:"there"`
	OK      bool   `json:"ok"`
	Verdict string `json:"verdict"`
}

// permsRandom: the secure writer, the mode setter and the validator of internal/validation on one path per history, with
// the process's file-creation mask varied and the mode changed behind their back now and then.
func permsRandom(args []string) int {
	fl := flag.NewFlagSet("perms-random", flag.ExitOnError)
	out := fl.String("out", "", "trace")
	ntr := fl.Int("traces", 100, "traces")
	length := fl.Int("len", 30, "operations per trace")
	fl.Parse(args)
	r := seededRand(909)
	w := newTraceWriter(*out)
	dir, err := os.MkdirTemp("", "vh-perms-")
	if err != nil {
		fatal("mkdtemp: %v", err)
	}
	defer os.RemoveAll(dir)
	kinds := []string{"config", "data", "temp", "executable", "directory", "other", ""}
	sfo := validation.NewSecureFileOperations()
	for t := 1; t <= *ntr; t++ {
		path := filepath.Join(dir, fmt.Sprintf("t%d", t), "sub", "file")
		emit := func(e *permEv) {
			e.Tr = t
			if st, err := os.Stat(path); err == nil {
				e.There = true
				if e.Op != "chmod" {
					e.Mode = int(st.Mode().Perm())
				} else if int(st.Mode().Perm()) != e.Mode {
					fatal("chmod did not take: %o", st.Mode().Perm())
				}
			}
			w.emit(e)
		}
		emit(&permEv{Op: "begin"})
		for i := 0; i < *length; i++ {
			kind := kinds[r.Intn(len(kinds))]
			switch x := r.Intn(100); {
			case x < 30:
				mask := []int{0, 0o022, 0o077, 0o002, 0o027}[r.Intn(5)]
				old := syscall.Umask(mask)
				err := sfo.WriteSecureFile(path, []byte("x\n"), kind)
				syscall.Umask(old)
				emit(&permEv{Op: "write", Kind: kind, Mask: mask, OK: err == nil})
			case x < 45:
				err := validation.SetSecureFilePermissions(path, kind)
				emit(&permEv{Op: "secure", Kind: kind, OK: err == nil})
			case x < 60:
				if _, err := os.Stat(path); err != nil {
					continue
				}
				m := []int{0o666, 0o660, 0o644, 0o600, 0o777, 0o606, 0o620, 0o400}[r.Intn(8)]
				if err := os.Chmod(path, os.FileMode(m)); err != nil {
					fatal("chmod: %v", err)
				}
				emit(&permEv{Op: "chmod", Mode: m})
			case x < 67:
				if os.Remove(path) == nil {
					emit(&permEv{Op: "rm"})
				}
			default:
				v := "ok"
				if err := validation.ValidateFilePermissions(path, kind); err != nil {
					switch msg := strings.ToLower(err.Error()); {
					case strings.Contains(msg, "cannot access"):
						v = "missing"
					case strings.Contains(msg, "world-writable") || strings.Contains(msg, "modified by anyone"):
						v = "world"
					case strings.Contains(msg, "group-writable") || strings.Contains(msg, "by group members"):
						v = "group"
					default:
						v = "other: " + msg
					}
				}
				emit(&permEv{Op: "validate", Kind: kind, Verdict: v})
			}
		}
	}
	w.close()
	fmt.Printf("{\"traces\": %d, \"events\": %d}\n", *ntr, w.n)
	return 0
}
