package main

import (
	"encoding/json"
	"flag"
	"fmt"
	"math"
	"os"
	"os/exec"
	"path/filepath"
	"regexp"
	"sort"
	"strings"

	wtfctx "github.com/Vedant9500/WTF/internal/context"
)

func init() { commands["context-run"] = contextRun }

type ctxScen struct {
	Files []string `json:"files"`
	Pkg   string   `json:"pkg"`
	Mk    string   `json:"mk"`
}

type ctxEv struct {
	Op       string   `json:"op"`
	Tr       int      `json:"tr"`
	Files    []string `json:"files"`
	Pkg      string   `json:"pkg"`
	Mk       string   `json:"mk"`
	Types    []string `json:"types"`
	Types2   []string `json:"types2"`
	Types3   []string `json:"types3"`
	Boosts   []int    `json:"boosts"`
	BoostID  int      `json:"boostid"`
	BoostID2 int      `json:"boostid2"`
	BoostID3 int      `json:"boostid3"`
	Panic    bool     `json:"panic"`
}

func fileContent(name, pkg, mk string) []byte {
	switch name {
	case "package.json":
		switch pkg {
		case "valid":
			return []byte(`{"name":"x","scripts":{"build":"tsc","test":"jest","lint":"eslint ."}}`)
		case "malformed":
			return []byte(`{"scripts": {"build": `)
		case "odd":
			return []byte(`{"scripts":{"":"x","ünï cödé":"y","123":"z","a b":"w","<|>":"v"},"scripts2":5}`)
		case "huge":
			return []byte(`{"scripts":{"s":"` + strings.Repeat("x", 300000) + `"}}`)
		}
	case "Makefile":
		switch mk {
		case "valid":
			return []byte("all: build\n\nbuild:\n\tgo build ./...\n\ntest: build\n\tgo test ./...\nVAR := 1\n.PHONY: all\n")
		case "odd":
			return []byte(":\n::\n a b : c\n\xff\xfe: x\n#c: d\n" + strings.Repeat("t", 5000) + ": y\n=:\n")
		case "binary":
			return []byte{0, 1, 2, ':', 0xff, '\n', ':', ':', 0}
		}
	}
	return []byte("x\n")
}

func populate(dir string, files []string, sc ctxScen) {
	os.MkdirAll(dir, 0o755)
	for _, f := range files {
		p := filepath.Join(dir, f)
		if f == ".git" {
			os.Mkdir(p, 0o755)
			continue
		}
		os.WriteFile(p, fileContent(f, sc.Pkg, sc.Mk), 0o644)
	}
}

func contextRun(args []string) int {
	fs := flag.NewFlagSet("context-run", flag.ExitOnError)
	in := fs.String("in", "", "scenarios")
	out := fs.String("out", "", "trace")
	fs.Parse(args)
	w := newTraceWriter(*out)
	base, _ := os.MkdirTemp("", "vh-ctx")
	defer os.RemoveAll(base)
	intern := map[string]int{}
	tr := 0
	analyse := func(dir string, ev *ctxEv) (types []string, boosts []int, id int) {
		defer func() {
			if r := recover(); r != nil {
				ev.Panic = true
			}
		}()
		c, _ := wtfctx.NewAnalyzer().AnalyzeDirectory(dir)
		types = []string{}
		for _, t := range c.ProjectTypes {
			types = append(types, string(t))
		}
		bm := c.GetContextBoosts()
		keys := make([]string, 0, len(bm))
		for k := range bm {
			keys = append(keys, k)
		}
		sort.Strings(keys)
		var sb strings.Builder
		boosts = []int{}
		for _, k := range keys {
			v := bm[k]
			fmt.Fprintf(&sb, "%q=%x;", k, math.Float64bits(v))
			if math.IsNaN(v) || math.IsInf(v, 0) || v > 1e6 {
				boosts = append(boosts, -1)
			} else {
				boosts = append(boosts, int(v*1000))
			}
		}
		s := sb.String()
		if _, ok := intern[s]; !ok {
			intern[s] = len(intern) + 1
		}
		return types, boosts, intern[s]
	}
	readJSONLines(*in, func(raw []byte) {
		if raw[0] == '"' {
			var s string
			json.Unmarshal(raw, &s)
			raw = []byte(s)
		}
		var sc ctxScen
		if err := json.Unmarshal(raw, &sc); err != nil {
			fatal("bad scenario: %v", err)
		}
		tr++
		ev := &ctxEv{Op: "ctx", Tr: tr, Files: sc.Files, Pkg: sc.Pkg, Mk: sc.Mk}
		if ev.Files == nil {
			ev.Files = []string{}
		}
		d1 := filepath.Join(base, fmt.Sprintf("a%d", tr))
		populate(d1, sc.Files, sc)
		ev.Types, ev.Boosts, ev.BoostID = analyse(d1, ev)
		ev.Types2, _, ev.BoostID2 = analyse(d1, ev)
		// the same listing, created in reverse order in another directory
		rev := append([]string{}, sc.Files...)
		for i, j := 0, len(rev)-1; i < j; i, j = i+1, j-1 {
			rev[i], rev[j] = rev[j], rev[i]
		}
		d2 := filepath.Join(base, fmt.Sprintf("b%d", tr))
		populate(d2, rev, sc)
		ev.Types3, _, ev.BoostID3 = analyse(d2, ev)
		os.RemoveAll(d1)
		os.RemoveAll(d2)
		w.emit(ev)
	})
	// every file name the analyzer's own detectors compare a name with (`filename == "..."`, `case "...":`) is, by the
	// program's own statement, a marker: a directory holding only that file is not "generic"
	nlit := 0
	if src, err := os.ReadFile(filepath.Join(repoPath(), "internal", "context", "analyzer.go")); err == nil {
		names := map[string]bool{}
		for _, m := range regexp.MustCompile(`filename == "([^"]+)"`).FindAllStringSubmatch(string(src), -1) {
			names[m[1]] = true
		}
		inSwitch := false
		for _, line := range strings.Split(string(src), "\n") {
			t := strings.TrimSpace(line)
			if strings.HasPrefix(t, "switch filename") {
				inSwitch = true
			} else if strings.HasPrefix(t, "func ") {
				inSwitch = false
			}
			if inSwitch && strings.HasPrefix(t, "case ") {
				for _, m := range regexp.MustCompile(`"([^"]+)"`).FindAllStringSubmatch(t, -1) {
					names[m[1]] = true
				}
			}
		}
		sorted := []string{}
		for n := range names {
			sorted = append(sorted, n)
		}
		sort.Strings(sorted)
		for _, n := range sorted {
			d := filepath.Join(base, fmt.Sprintf("lit%d", nlit))
			os.MkdirAll(d, 0o755)
			if n == ".git" || n == "node_modules" {
				os.Mkdir(filepath.Join(d, n), 0o755)
			} else {
				os.WriteFile(filepath.Join(d, n), []byte("{}\n"), 0o644)
			}
			c, aerr := wtfctx.NewAnalyzer().AnalyzeDirectory(d)
			generic := aerr != nil || c == nil || len(c.ProjectTypes) == 0
			if !generic {
				generic = len(c.ProjectTypes) == 1 && string(c.ProjectTypes[0]) == "generic"
			}
			tr++
			nlit++
			w.emit(map[string]interface{}{"op": "ctxlit", "tr": tr, "name": n, "generic": generic})
			os.RemoveAll(d)
		}
	}
	// a crowded directory: thousands of unrelated files around the markers change nothing
	for bi, nfill := range []int{1100, 3000, 6000} {
		markers := [][]string{{"Dockerfile", "package.json", "go.mod", "Makefile"}, {"package.json"}, {"Dockerfile", "Cargo.toml", "requirements.txt", "pom.xml", ".git"}}[bi]
		small := filepath.Join(base, fmt.Sprintf("small%d", bi))
		big := filepath.Join(base, fmt.Sprintf("big%d", bi))
		os.MkdirAll(small, 0o755)
		os.MkdirAll(big, 0o755)
		put := func(dir, n string) {
			if n == ".git" {
				os.Mkdir(filepath.Join(dir, n), 0o755)
			} else {
				os.WriteFile(filepath.Join(dir, n), []byte("{}\n"), 0o644)
			}
		}
		for i, m := range markers {
			put(small, m)
			if i%2 == 0 {
				put(big, m)
			}
		}
		for i := 0; i < nfill; i++ {
			os.WriteFile(filepath.Join(big, fmt.Sprintf("note-%05d.zzq", i)), nil, 0o644)
		}
		for i, m := range markers {
			if i%2 == 1 {
				put(big, m)
			}
		}
		typesOf := func(dir string) string {
			c, err := wtfctx.NewAnalyzer().AnalyzeDirectory(dir)
			if err != nil || c == nil {
				return "error"
			}
			ts := []string{}
			for _, t := range c.ProjectTypes {
				ts = append(ts, string(t))
			}
			sort.Strings(ts)
			return strings.Join(ts, ",")
		}
		tr++
		w.emit(map[string]interface{}{"op": "ctxbig", "tr": tr, "fillers": nfill, "markers": markers, "types": typesOf(big), "alone": typesOf(small), "same": typesOf(big) == typesOf(small)})
		os.RemoveAll(big)
	}
	// the command line derives its context from the directory it runs in - whatever the environment says (a launcher that
	// sets the working directory need not rewrite PWD)
	ncli := 0
	if wtf := os.Getenv("VERIF_WTF"); wtf != "" {
		dirs := map[string][]string{"goproject": {"go.mod", "Makefile"}, "empty": {}, "node": {"package.json"}}
		paths := map[string]string{}
		for name, files := range dirs {
			d := filepath.Join(base, "cli-"+name)
			os.MkdirAll(d, 0o755)
			for _, f := range files {
				os.WriteFile(filepath.Join(d, f), []byte("{}\n"), 0o644)
			}
			paths[name] = d
		}
		home := filepath.Join(base, "cli-home")
		os.MkdirAll(home, 0o755)
		dbf := filepath.Join(repoPath(), "assets", "commands.yml")
		reCtx := regexp.MustCompile(`(?m)^Context detected: (.*)$`)
		for _, name := range []string{"goproject", "empty", "node"} {
			for _, pwd := range []string{"same", "goproject", "empty", "node", "unset"} {
				env := []string{"HOME=" + home, "XDG_CONFIG_HOME=" + filepath.Join(home, ".config"), "PATH=/usr/bin:/bin", "NO_COLOR=1"}
				switch pwd {
				case "same":
					env = append(env, "PWD="+paths[name])
				case "unset":
				default:
					env = append(env, "PWD="+paths[pwd])
				}
				cmd := exec.Command(wtf, "search", "--database", dbf, "-v", "--", "list", "files")
				cmd.Dir, cmd.Env = paths[name], env
				out, _ := cmd.CombinedOutput()
				got := ""
				if m := reCtx.FindStringSubmatch(string(out)); m != nil {
					got = m[1]
				}
				want := ""
				if c, err := wtfctx.NewAnalyzer().AnalyzeDirectory(paths[name]); err == nil && c != nil {
					want = c.GetContextDescription()
				}
				tr++
				ncli++
				w.emit(map[string]interface{}{"op": "ctxcli", "tr": tr, "dir": name, "pwd": pwd, "same": got == want, "got": got, "want": want})
			}
		}
	}
	w.close()
	fmt.Printf("{\"directories\": %d, \"marker_names\": %d, \"cli_runs\": %d}\n", tr, nlit, ncli)
	return 0
}
