package main

import (
	"flag"
	"fmt"
	"os"
	"path/filepath"
	"regexp"
	"sort"
	"strings"

	"github.com/Vedant9500/WTF/internal/database"
	"github.com/Vedant9500/WTF/internal/nlp"
)

func init() { commands["engine-nlp"] = engineNLP }

type nlpEv struct {
	Op     string `json:"op"`
	Tr     int    `json:"tr"`
	Q      string `json:"q"`
	Corpus string `json:"corpus"`
	NTok   int    `json:"ntok"`   // content words of the query (reference tokeniser, duplicates counted)
	Off    []int  `json:"off"`    // documents returned with NLP off (limit >= database size, fuzzy off)
	On     []int  `json:"on"`     // ... with NLP on
	Cap    int    `json:"cap"`    // a small TopTermsCap
	OnCap  []int  `json:"oncap"`  // ... with NLP on under that cap
	First4 []int  `json:"first4"` // documents matching one of the first four content words
	OnCmp  []int  `json:"oncmp"`  // ranking of the NLP answer
	UW     []int  `json:"uw"`     // the user's words in order (cleaned, lower case), interned
	KW     []int  `json:"kw"`     // ProcessQuery(...).Keywords
	Enh    []int  `json:"enh"`    // GetEnhancedKeywords()
	KWSyn  []int  `json:"kwsyn"`  // 1 where the keyword is the synonym the analysis inserts after the preceding keyword
	Same   bool   `json:"same"`   // analysing the text again (same and fresh processor) gives the identical analysis
	KwComp bool   `json:"kwcomp"` // every keyword (and target) that a word of the query yields on its own is also one of the whole query
	OnSame bool   `json:"onsame"` // the NLP search on a freshly loaded copy of the database (which has analysed nothing yet) answers identically
	Panic  bool   `json:"panic"`
}

func docsOf(c *corpusT, rs []database.SearchResult) []int {
	out := []int{}
	for _, r := range rs {
		if d, ok := c.idx[r.Command]; ok {
			out = append(out, d)
		} else {
			out = append(out, -1)
		}
	}
	return out
}

func analysisString(pq *nlp.ProcessedQuery) string {
	return fmt.Sprintf("%q|%q|%q|%q|%v|%q", pq.Keywords, pq.Actions, pq.Targets, pq.GetEnhancedKeywords(), pq.Intent, pq.Cleaned)
}

func engineNLP(args []string) int {
	fs := flag.NewFlagSet("engine-nlp", flag.ExitOnError)
	out := fs.String("out", "", "trace")
	n := fs.Int("n", 600, "queries")
	fs.Parse(args)
	r := seededRand(6)
	w := newTraceWriter(*out)
	defer os.RemoveAll(tmpDir())
	words := map[string]int{}
	wid := func(s string) int {
		if id, ok := words[s]; ok {
			return id
		}
		words[s] = len(words) + 1
		return words[s]
	}
	ids := func(ss []string) []int {
		o := []int{}
		for _, s := range ss {
			o = append(o, wid(s))
		}
		return o
	}
	// word pools: NLP table words (found by probing), stop words, corpus words, unknown words
	english := []string{"find", "search", "locate", "list", "show", "display", "view", "see", "read", "create", "make", "build", "generate", "new", "delete",
		"remove", "destroy", "clean", "clear", "modify", "change", "edit", "update", "install", "add", "download", "run", "execute", "start", "launch",
		"configure", "setup", "copy", "move", "compress", "extract", "archive", "file", "files", "folder", "directory", "process", "network", "ip", "disk",
		"text", "log", "logs", "user", "permission", "permissions", "package", "service", "port", "memory", "contents", "content", "inside", "check", "print",
		"windows", "manage", "vim", "ps", "wget", "curl", "tar", "zip", "git", "docker", "running", "processes", "configuration", "installation", "url",
		"fetch", "edit", "without", "opening", "look"}
	stops := []string{"the", "a", "to", "in", "of", "how", "with", "my", "for", "and", "is", "it", "on"}
	unknown := []string{"zzqfoo", "xylo", "qwrt", "blorp", "x", "7", "ünï", "中文"}
	// multi-word phrases the analysis itself looks for: harvested from the string literals of the NLP package
	phrases := nlpPhrases()
	p := nlp.NewQueryProcessor()
	tr := 0
	for i := 0; i < *n; i++ {
		corpus := "mix"
		if i%3 == 2 {
			corpus = "shipped"
		}
		if i%9 == 4 { // every command contains the leading words of the query
			corpus = []string{"tie", "bigtie", "single"}[(i/9)%3]
		}
		if i%9 == 7 { // the usual action words occur in nearly every entry
			corpus = "common"
		}
		c := getCorpus(corpus)
		// corpus words
		var cw []string
		for k := 0; k < 6; k++ {
			d := c.db.Commands[r.Intn(len(c.db.Commands))]
			t := refTokens(strings.ToLower(d.Command + " " + d.Description))
			if len(t) > 0 {
				cw = append(cw, t[r.Intn(len(t))])
			}
		}
		ln := 1 + r.Intn(6)
		if r.Intn(2) == 0 {
			ln = 7 + r.Intn(8) // the caps bite between 8 and 11 terms
		}
		var qs []string
		for k := 0; k < ln; k++ {
			switch x := r.Intn(10); {
			case x < 1 && len(phrases) > 0:
				qs = append(qs, phrases[r.Intn(len(phrases))])
			case x < 4:
				qs = append(qs, english[r.Intn(len(english))])
			case x < 7 && len(cw) > 0:
				qs = append(qs, cw[r.Intn(len(cw))])
			case x < 8:
				qs = append(qs, stops[r.Intn(len(stops))])
			case x < 9 && len(qs) > 0:
				qs = append(qs, qs[r.Intn(len(qs))]) // a word twice
			default:
				qs = append(qs, unknown[r.Intn(len(unknown))])
			}
		}
		if corpus == "tie" || corpus == "bigtie" || corpus == "single" {
			lead := [][]string{{"frobnicate", "widget"}, {"widget"}, {"the", "frobnicate"}, {"zqtie", "frobnicate", "widget"}}[r.Intn(4)]
			qs = append(append([]string{}, lead...), qs...)
			for len(qs) < 12+r.Intn(3) && r.Intn(3) > 0 { // long enough for the term cap to bite
				qs = append(qs, english[r.Intn(len(english))])
			}
		}
		if corpus == "common" {
			lead := [][]string{{"list"}, {"list", "programs"}, {"show"}, {"find", "list"}, {"copy", "show"}, {"list", "users"}}[r.Intn(6)]
			if r.Intn(2) == 0 {
				qs = lead // short queries made of the common words alone
			} else {
				qs = append(append([]string{}, lead...), qs...)
			}
		}
		q := strings.Join(qs, " ")
		if r.Intn(8) == 0 {
			q = strings.ToUpper(q[:1]) + q[1:] + "?"
		}
		tr++
		ev := &nlpEv{Op: "nlp", Tr: tr, Q: q, Corpus: corpus}
		func() {
			defer func() {
				if rec := recover(); rec != nil {
					ev.Panic = true
				}
			}()
			toks := refTokens(strings.ToLower(q))
			ev.NTok = len(toks)
			N := len(c.db.Commands) + 10
			// (a small cap on the number of terms may be set by a caller: the first four content words are kept regardless)
			o := database.SearchOptions{Limit: N, AllPlatforms: r.Intn(2) == 0}
			ev.Off = docsOf(c, c.db.SearchUniversal(q, o))
			o.UseNLP = true
			onRes := c.db.SearchUniversal(q, o)
			ev.On = docsOf(c, onRes)
			ev.OnCmp = cmpSeq(toHits(onRes))
			// a caller may cap the number of terms: the first four content words are kept regardless
			oc := o
			oc.TopTermsCap = []int{2, 3, 4, 5, 6}[r.Intn(5)]
			ev.Cap = oc.TopTermsCap
			ev.OnCap = docsOf(c, c.db.SearchUniversal(q, oc))
			ev.OnSame = true
			if c.file != "" && (corpus != "shipped" || i%12 == 2) {
				if db2, err := database.LoadDatabase(c.file); err == nil {
					c2 := wrapCorpus(c.name, db2, c.cmds, c.file)
					in := newInterner()
					ev.OnSame = in.answerID(c, toHits(onRes)) == in.answerID(c2, toHits(db2.SearchUniversal(q, o)))
				}
			}
			first := toks
			if len(first) > 4 {
				first = first[:4]
			}
			o.UseNLP = false
			seen := map[int]bool{}
			ev.First4 = []int{}
			for _, t := range first {
				for _, d := range docsOf(c, c.db.SearchUniversal(t, o)) {
					if !seen[d] {
						seen[d] = true
						ev.First4 = append(ev.First4, d)
					}
				}
			}
			pq := p.ProcessQuery(q)
			ev.KW = ids(pq.Keywords)
			ev.KWSyn = make([]int, len(pq.Keywords))
			for i := 1; i < len(pq.Keywords); i++ {
				if syn := p.GetSynonyms(pq.Keywords[i-1]); len(syn) > 0 && syn[0] == pq.Keywords[i] {
					ev.KWSyn[i] = 1
				}
			}
			ev.Enh = ids(pq.GetEnhancedKeywords())
			ev.UW = ids(strings.Fields(strings.ToLower(pq.Cleaned)))
			ev.KwComp = true
			has := func(list []string, x string) bool {
				for _, y := range list {
					if y == x {
						return true
					}
				}
				return false
			}
			for _, wd := range strings.Fields(strings.ToLower(pq.Cleaned)) {
				one := nlp.NewQueryProcessor().ProcessQuery(wd)
				for _, k := range one.Keywords {
					if !has(pq.Keywords, k) {
						ev.KwComp = false
					}
				}
				for _, k := range one.Targets {
					if !has(pq.Targets, k) {
						ev.KwComp = false
					}
				}
			}
			a1 := analysisString(pq)
			ev.Same = a1 == analysisString(p.ProcessQuery(q)) && a1 == analysisString(nlp.NewQueryProcessor().ProcessQuery(q))
			for k := 0; k < 5 && ev.Same; k++ {
				ev.Same = a1 == analysisString(nlp.NewQueryProcessor().ProcessQuery(q))
			}
		}()
		for _, f := range []*[]int{&ev.OnCap, &ev.Off, &ev.On, &ev.First4, &ev.OnCmp, &ev.UW, &ev.KW, &ev.Enh, &ev.KWSyn} {
			if *f == nil {
				*f = []int{}
			}
		}
		w.emit(ev)
	}
	w.close()
	fmt.Printf("{\"queries\": %d}\n", tr)
	return 0
}

var rePhrase = regexp.MustCompile("\"([a-z]+(?: [a-z]+){1,3})\"")

// nlpPhrases: lower-case multi-word string literals of internal/nlp (non-test sources)
func nlpPhrases() []string {
	seen := map[string]bool{}
	var out []string
	files, _ := filepath.Glob(filepath.Join(repoPath(), "internal", "nlp", "*.go"))
	sort.Strings(files)
	for _, f := range files {
		if strings.HasSuffix(f, "_test.go") {
			continue
		}
		b, err := os.ReadFile(f)
		if err != nil {
			continue
		}
		for _, m := range rePhrase.FindAllStringSubmatch(string(b), -1) {
			if !seen[m[1]] && len(m[1]) < 40 {
				seen[m[1]] = true
				out = append(out, m[1])
			}
		}
	}
	return out
}
