package main

import (
	"bufio"
	"encoding/json"
	stderrors "errors"
	"flag"
	"fmt"
	"math"
	"os"
	"os/exec"
	"path/filepath"
	"runtime/debug"
	"strings"
	"syscall"
	"time"
	"unicode/utf16"
	"unicode/utf8"

	"github.com/Vedant9500/WTF/internal/database"
	apperrors "github.com/Vedant9500/WTF/internal/errors"
	"github.com/Vedant9500/WTF/internal/recovery"
)

func init() {
	commands["total-run"] = totalRun
	commands["total-child"] = totalChild
}

type totScen struct {
	Shape string `json:"shape"`
	Text  string `json:"text"`
	Query string `json:"query"`
	Opt   string `json:"opt"`
	Entry string `json:"entry"`
}

type totEv struct {
	Op      string `json:"op"`
	Tr      int    `json:"tr"`
	Shape   string `json:"shape"`
	Text    string `json:"text"`
	Query   string `json:"query"`
	Opt     string `json:"opt"`
	Entry   string `json:"entry"`
	Outcome string `json:"outcome"`
	Via     string `json:"via,omitempty"`
	Note    string `json:"note,omitempty"`
	MS      int    `json:"ms"`
}

func textsOf(class string) (cmd, desc string, kws []string) {
	switch class {
	case "nul":
		return "ab\x00cd tool --x", "de\x00scription with a nul", []string{"k\x00w", "list"}
	case "longfields":
		return strings.Repeat("longword", 130), strings.Repeat("desc ", 250), []string{strings.Repeat("k", 1000)}
	case "punct":
		return "!!! ??? --- ...", "*** ((( ))) ###", []string{"---", "!!!"}
	case "emptyfields":
		return "", "", nil
	case "blankfields": // a command line of white space only, found through its description and keywords
		return " \t\u00a0", "Compress a directory; list files (the command itself is blank)", []string{"compress", "list", " "}
	case "unicode":
		return "日本語 Ünï cödé 🚀 tool", "Σίσυφος ßtraße ﬁle İstanbul", []string{"キーワード", "ключ"}
	case "badutf8":
		return "bad\xffutf8 tool", "de\xc3\x28sc \xf0\x9f", []string{"k\xfew"}
	}
	return "tar -czf x.tgz dir", "Compress a directory into an archive; list files", []string{"compress", "archive", "list"}
}

func yamlQuote(s string) string {
	b, _ := json.Marshal(s) // JSON strings are YAML double-quoted strings
	return string(b)
}

// makeFile writes the file content for a shape; returns the path ("" for missing) and whether the texts could be carried
func makeFile(dir, shape, text string) string {
	p := filepath.Join(dir, "db.yml")
	os.RemoveAll(p)
	cmd, desc, kws := textsOf(text)
	entry := func(i int) string {
		k := []string{}
		for _, x := range kws {
			k = append(k, yamlQuote(x))
		}
		cmdi := fmt.Sprintf("%s %d", cmd, i)
		if text == "blankfields" {
			cmdi = cmd
		}
		return fmt.Sprintf("- command: %s\n  description: %s\n  keywords: [%s]\n  platform: [linux]\n  pipeline: %v\n", yamlQuote(cmdi), yamlQuote(desc), strings.Join(k, ", "), i%2 == 0)
	}
	var content string
	switch shape {
	case "missing":
		return p
	case "directory":
		os.Mkdir(p, 0o755)
		return p
	case "empty":
		content = ""
	case "nulldoc":
		content = "null\n"
	case "emptylist":
		content = "[]\n"
	case "valid":
		content = entry(1) + entry(2) + entry(3)
	case "validextra":
		content = entry(1) + "  unknown_field: 5\n  niche: ops\n  tags: [a, b]\n" + entry(2)
	case "hugelist":
		var b strings.Builder
		for i := 0; i < 3000; i++ {
			b.WriteString(entry(i))
		}
		content = b.String()
	case "scalar":
		content = "just a scalar " + cmd + "\n"
		if text == "emptyfields" {
			content = "scalar\n"
		}
	case "map":
		content = "command: x\ndescription: y\n"
	case "listofscalars":
		content = "- one\n- two\n- 3\n"
	case "wrongtypes":
		content = "- command: 123\n  description: true\n  keywords: notalist\n- command: [a, b]\n  description: {x: y}\n  pipeline: maybe\n"
	case "deepnest":
		content = "- command: x\n  keywords: " + strings.Repeat("[", 200) + strings.Repeat("]", 200) + "\n"
	case "aliases":
		content = "a: &a [x, x, x, x, x, x, x, x, x]\nb: &b [*a, *a, *a, *a, *a, *a, *a, *a, *a]\nc: &c [*b, *b, *b, *b, *b, *b, *b, *b, *b]\nd: [*c, *c, *c, *c, *c, *c, *c, *c, *c]\n"
	case "damaged":
		v := entry(1) + entry(2)
		content = v[:len(v)/2] + "\n  - : : [unclosed {\n\t\tkey: 'x\n" + v[len(v)/2:]
	case "utf16le", "utf16be": // a well-formed list saved as UTF-16 with a byte-order mark (what Windows tools write)
		src := entry(1) + entry(2) + entry(3)
		if !utf8.ValidString(src) {
			src = "- command: \"tar -czf x.tgz dir\"\n  description: \"Compress a directory; list files\"\n  keywords: [compress, list]\n"
		}
		u := utf16.Encode([]rune("\ufeff" + src))
		b := make([]byte, 0, 2*len(u))
		for _, x := range u {
			if shape == "utf16le" {
				b = append(b, byte(x), byte(x>>8))
			} else {
				b = append(b, byte(x>>8), byte(x))
			}
		}
		content = string(b)
	case "binary":
		content = string([]byte{0x00, 0x01, 0x02, 0xff, 0xfe, 0x7f, 0x1b, 0x5b, 0x00, 0x89, 0x50, 0x4e, 0x47, 0x0d, 0x0a, 0x1a, 0x0a})
	}
	os.WriteFile(p, []byte(content), 0o644)
	return p
}

func classifyLoadErr(err error, path string) string {
	if err == nil {
		return "loads"
	}
	if stderrors.Is(err, os.ErrNotExist) {
		return "notfound"
	}
	// "reported as a parse error": what the user is told is what the package's own parse-error report for this file says
	// (and likewise for not-found); anything else is some other error, whatever words it contains
	ufm := apperrors.GetUserFriendlyMessage(err)
	if ufm == apperrors.GetUserFriendlyMessage(apperrors.NewDatabaseParseError(path, err)) {
		return "parse"
	}
	if ufm == apperrors.GetUserFriendlyMessage(apperrors.NewDatabaseNotFoundError(path, err)) {
		return "notfound"
	}
	var typed *apperrors.AppError
	if stderrors.As(err, &typed) {
		return "othererror"
	}
	msg := strings.ToLower(err.Error() + " " + apperrors.GetUserFriendlyMessage(err))
	var ae *apperrors.AppError
	if stderrors.As(err, &ae) {
		msg += " " + strings.ToLower(ae.Message)
	}
	switch {
	case strings.Contains(msg, "parse"):
		return "parse"
	case strings.Contains(msg, "not found"):
		return "notfound"
	}
	return "othererror"
}

func queryOf(class string) string {
	switch class {
	case "short": // one letter: no index term, answered by the typo fallback when enabled
		return "a"
	case "nul":
		return "list\x00files a"
	case "badutf8":
		return "li\xffst \xc3\x28 tool"
	case "long1000":
		return (strings.Repeat("compress directory archive ", 40))[:1000]
	case "punct":
		return "!!! --- ??? ... |&;"
	case "empty":
		return ""
	case "blank":
		return " \t\n "
	case "repeat300":
		return strings.TrimSpace(strings.Repeat("list ", 300))
	case "unicode":
		return "日本語 Ünï 🚀 Σίσυφος İ"
	case "regexchars":
		return "(a+)+$ [z-a] \\ .* {1,999999}"
	}
	return "compress a directory"
}

func optionsOf(class string, i int) database.SearchOptions {
	o := database.SearchOptions{Limit: 5, UseFuzzy: i%2 == 0, UseNLP: i%3 == 0}
	switch class {
	case "limits":
		o.Limit = []int{-5, 0, 1, 1000000000, math.MinInt32, 1 << 62, math.MaxInt64, math.MinInt64}[i%8]
	case "thresholds":
		o.UseFuzzy = true
		o.FuzzyThreshold = []int{-1000000000, 1000000000, -1, 1}[i%4]
	case "caps":
		o.TopTermsCap = []int{-1, 1, 1000000, 3}[i%4]
		o.UseNLP = true
	case "boostsNaN":
		o.ContextBoosts = map[string]float64{"list": math.NaN(), "compress": math.Inf(1), "directory": -3, "archive": 0, "": 2, "tool": math.Inf(-1)}
	case "pipelineNaN":
		o.PipelineOnly = i%2 == 0
		o.PipelineBoost = []float64{math.NaN(), -1, math.Inf(1), 1e308}[i%4]
	case "platformsOdd":
		o.Platforms = []string{"", " ", "LINUX", strings.Repeat("x", 5000), "cross-platform", "\x00"}
		o.NoCrossPlatform = i%2 == 0
		o.AllPlatforms = i%5 == 0
	}
	return o
}

// guarded runs f with panic recovery and a deadline; outcome: returned | panic | timeout
func guarded(f func()) (outcome, note string, ms int) {
	done := make(chan string, 1)
	t0 := time.Now()
	go func() {
		defer func() {
			if r := recover(); r != nil {
				done <- "panic: " + fmt.Sprint(r)
			}
		}()
		f()
		done <- ""
	}()
	select {
	case s := <-done:
		ms = int(time.Since(t0) / time.Millisecond)
		if s != "" {
			return "panic", s, ms
		}
		return "returned", "", ms
	case <-time.After(20 * time.Second):
		return "timeout", "no return within 20 s", 20000
	}
}

func callEntry(db *database.Database, entry, q string, o database.SearchOptions) {
	switch entry {
	case "universal":
		db.SearchUniversal(q, o)
	case "search":
		db.Search(q, o.Limit)
	case "pipeline":
		db.SearchWithPipelineOptions(q, o)
	case "legacyoptions":
		db.SearchWithOptions(q, o)
	case "legacyfuzzy":
		db.SearchWithFuzzy(q, o)
	case "legacynlp":
		db.SearchWithNLP(q, o)
	case "cached":
		c := database.NewCachedDatabase(db)
		c.SearchWithOptionsAndCache(q, o)
		c.SearchWithOptionsAndCache(q, o)
	case "monitored":
		m := database.NewMonitoredDatabase(db)
		m.SearchWithOptionsAndMonitoring(q, o)
		m.SearchWithMonitoring(q, o.Limit)
	case "suggestions":
		db.GetSuggestions(q, o.Limit)
	case "recovery":
		recovery.NewSearchRecovery().RecoverFromSearchFailure(q, nil, db)
	}
}

func totalRun(args []string) int {
	fs := flag.NewFlagSet("total-run", flag.ExitOnError)
	in := fs.String("in", "", "scenarios")
	out := fs.String("out", "", "trace")
	fs.Parse(args)
	w := newTraceWriter(*out)
	dir, _ := os.MkdirTemp("", "vh-total")
	defer os.RemoveAll(dir)
	groups := map[string][]totScen{}
	var order []string
	readJSONLines(*in, func(raw []byte) {
		if raw[0] == '"' {
			var s string
			json.Unmarshal(raw, &s)
			raw = []byte(s)
		}
		var s totScen
		if err := json.Unmarshal(raw, &s); err != nil {
			fatal("bad scenario: %v", err)
		}
		k := s.Shape + "/" + s.Text
		if _, ok := groups[k]; !ok {
			order = append(order, k)
		}
		groups[k] = append(groups[k], s)
	})
	self, _ := os.Executable()
	tr := 0
	for _, k := range order {
		g := groups[k]
		skip := 0
		loadDone := false
		for skip <= len(g) {
			// one child per group; restarted after the scenario that killed it
			gf := filepath.Join(dir, "group.json")
			b, _ := json.Marshal(g)
			os.WriteFile(gf, b, 0o644)
			cmd := exec.Command(self, "total-child", gf, dir, fmt.Sprint(skip), fmt.Sprint(loadDone))
			var eb strings.Builder
			cmd.Stderr = &eb
			po, _ := cmd.StdoutPipe()
			if err := cmd.Start(); err != nil {
				fatal("cannot start child: %v", err)
			}
			sc := bufio.NewScanner(po)
			sc.Buffer(make([]byte, 1<<20), 1<<24)
			n := 0
			for sc.Scan() {
				var ev totEv
				if json.Unmarshal(sc.Bytes(), &ev) != nil {
					continue
				}
				tr++
				ev.Tr = tr
				w.emit(&ev)
				if ev.Op == "load" {
					loadDone = true
				} else {
					n++
				}
			}
			err := cmd.Wait()
			if err == nil {
				break
			}
			// the child died (fatal error: stack overflow, out of memory, ...): blame the scenario it was working on
			note := lastLines(eb.String(), 1)
			if i := strings.Index(eb.String(), "fatal error:"); i >= 0 {
				note = strings.SplitN(eb.String()[i:], "\n", 2)[0]
			}
			tr++
			if !loadDone {
				w.emit(&totEv{Op: "load", Tr: tr, Shape: g[0].Shape, Text: g[0].Text, Outcome: "fatal", Note: note})
				break
			}
			idx := skip + n
			if idx >= len(g) {
				break
			}
			w.emit(&totEv{Op: "call", Tr: tr, Shape: g[idx].Shape, Text: g[idx].Text, Query: g[idx].Query, Opt: g[idx].Opt, Entry: g[idx].Entry, Outcome: "fatal", Note: note})
			skip = idx + 1
		}
	}
	w.close()
	fmt.Printf("{\"events\": %d, \"loads\": %d}\n", w.n, len(order))
	return 0
}

// totalChild runs one (file shape, text class) group: the load, then every call; events go to stdout, one per line
func totalChild(args []string) int {
	gf, dir := args[0], args[1]
	var skip int
	fmt.Sscan(args[2], &skip)
	loadDone := args[3] == "true"
	debug.SetMaxStack(48 << 20)
	var lim syscall.Rlimit
	lim.Cur, lim.Max = 6<<30, 6<<30
	syscall.Setrlimit(syscall.RLIMIT_AS, &lim)
	var g []totScen
	b, _ := os.ReadFile(gf)
	if err := json.Unmarshal(b, &g); err != nil || len(g) == 0 {
		return 0
	}
	realOut := os.Stdout
	devnull, _ := os.OpenFile(os.DevNull, os.O_WRONLY, 0)
	os.Stdout = devnull // the recovery search prints warnings
	emit := func(ev *totEv) {
		jb, _ := json.Marshal(ev)
		realOut.Write(append(jb, '\n'))
	}
	shape, text := g[0].Shape, g[0].Text
	p := makeFile(dir, shape, text)
	var db *database.Database
	var lerr error
	ev := &totEv{Op: "load", Shape: shape, Text: text}
	ev.Outcome, ev.Note, ev.MS = guarded(func() { db, lerr = database.LoadDatabase(p) })
	if ev.Outcome == "returned" {
		ev.Outcome = classifyLoadErr(lerr, p)
		if lerr != nil {
			ev.Note = lerr.Error()
			if len(ev.Note) > 200 {
				ev.Note = ev.Note[:200]
			}
		}
	}
	if !loadDone {
		emit(ev)
		// the same file as the personal notebook beside a good main file, through the combined loader
		mainF := filepath.Join(dir, "good-main.yml")
		os.WriteFile(mainF, []byte("- command: \"tar -czf x.tgz dir\"\n  description: \"Compress a directory\"\n  keywords: [compress]\n"), 0o644)
		var perr error
		evp := &totEv{Op: "loadp", Shape: shape, Text: text}
		evp.Outcome, evp.Note, evp.MS = guarded(func() { _, perr = database.LoadDatabaseWithPersonal(mainF, p) })
		if evp.Outcome == "returned" {
			evp.Outcome = classifyLoadErr(perr, p)
			if perr != nil {
				evp.Note = perr.Error()
				if len(evp.Note) > 200 {
					evp.Note = evp.Note[:200]
				}
			}
		}
		emit(evp)
	}
	via := "yaml"
	if db == nil || lerr != nil || len(db.Commands) == 0 {
		// searches still have to be total on a database holding such texts: build it directly
		cmd, desc, kws := textsOf(text)
		db = &database.Database{}
		for i := 0; i < 4; i++ {
			db.Commands = append(db.Commands, database.Command{Command: fmt.Sprintf("%s %d", cmd, i), Description: desc, Keywords: kws, Pipeline: i%2 == 0,
				CommandLower: strings.ToLower(cmd), DescriptionLower: strings.ToLower(desc)})
		}
		if shape == "emptylist" || shape == "empty" || shape == "nulldoc" {
			db.Commands = nil
		}
		via = "direct"
		guarded(func() { db.BuildUniversalIndex() })
	}
	for i, s := range g {
		if i < skip {
			continue
		}
		ce := &totEv{Op: "call", Shape: shape, Text: text, Query: s.Query, Opt: s.Opt, Entry: s.Entry, Via: via}
		q, o := queryOf(s.Query), optionsOf(s.Opt, i)
		ce.Outcome, ce.Note, ce.MS = guarded(func() { callEntry(db, s.Entry, q, o) })
		if len(ce.Note) > 300 {
			ce.Note = ce.Note[:300]
		}
		emit(ce)
	}
	// directed: the database's own words, and the pieces a NUL or an invalid byte cuts them into, as queries (a prefix that
	// ends exactly where the odd byte sits is what a matcher that treats it as an end marker stumbles over)
	if text == "nul" || text == "badutf8" || text == "unicode" || text == "punct" {
		cmd, desc, kws := textsOf(text)
		seen := map[string]bool{}
		var probes []string
		add := func(q string) {
			if q != "" && !seen[q] && len(probes) < 60 {
				seen[q] = true
				probes = append(probes, q)
			}
		}
		for _, field := range append([]string{cmd, desc}, kws...) {
			for _, wd := range strings.Fields(field) {
				add(wd)
				for i := 0; i < len(wd); i++ {
					if wd[i] == 0 || wd[i] >= 0x80 {
						add(wd[:i])
						add(wd[i+1:])
						add(wd[:i+1])
					}
				}
				if len(wd) > 3 {
					add(wd[:3])
					add(wd[:len(wd)-1])
				}
			}
		}
		for pi, q := range probes {
			for _, entry := range []string{"suggestions", "universal", "legacyfuzzy", "recovery"} {
				ce := &totEv{Op: "call", Shape: shape, Text: text, Query: "ownword", Opt: "fuzzy", Entry: entry, Via: via}
				o := database.SearchOptions{Limit: 1 + pi%7, UseFuzzy: true, UseNLP: pi%2 == 0, AllPlatforms: true}
				ce.Outcome, ce.Note, ce.MS = guarded(func() { callEntry(db, entry, q, o) })
				if ce.Outcome != "returned" {
					ce.Note = fmt.Sprintf("query %q: %s", q, ce.Note)
				}
				if len(ce.Note) > 300 {
					ce.Note = ce.Note[:300]
				}
				emit(ce)
			}
		}
	}
	return 0
}
