package main

import (
	"crypto/sha256"
	"flag"
	"fmt"
	"io/fs"
	"os"
	"path/filepath"
	"regexp"
	"sort"
	"strings"
)

func init() { commands["alias-run"] = aliasRun }

type aliasEv struct {
	Op      string   `json:"op"`
	Tr      int      `json:"tr"`
	Name    string   `json:"name"` // for a plain name: the file it denotes ("../wtf-aliases/back" is "back")
	Raw     string   `json:"raw"`
	Kind    string   `json:"kind"`
	Target  string   `json:"target"`
	OK      bool     `json:"ok"`
	Crash   bool     `json:"crash"`
	There   bool     `json:"there"`
	Inside  []string `json:"inside"`
	Outside []string `json:"outside"`
	Touched []string `json:"touched"`
	Listed  []string `json:"listed"`
	Output  string   `json:"output,omitempty"`
}

var reAliasLine = regexp.MustCompile(`(?m)^  • (.*)$`)

// aliasKind classifies a name by where "<alias directory>/<name>" points - path arithmetic only, nothing is opened
func aliasKind(home, dir, name string) (kind, target string) {
	if strings.HasPrefix(name, "-") {
		return "flag", ""
	}
	p := filepath.Clean(filepath.Join(dir, name))
	if p == dir {
		return "self", ""
	}
	rel, err := filepath.Rel(dir, p)
	if err != nil || rel == ".." || strings.HasPrefix(rel, ".."+string(filepath.Separator)) {
		t, _ := filepath.Rel(home, p)
		return "escape", t
	}
	if strings.ContainsRune(rel, filepath.Separator) {
		return "nested", ""
	}
	return "plain", rel
}

// aliasRun: sessions of `wtf alias add | list | remove` through the real binary in a scratch home directory; after every
// command the whole home directory is listed (which aliases exist, which other files exist, which of those changed).
func aliasRun(args []string) int {
	fl := flag.NewFlagSet("alias-run", flag.ExitOnError)
	out := fl.String("out", "", "trace")
	ns := fl.Int("sessions", 20, "sessions")
	length := fl.Int("len", 25, "commands per session")
	fl.Parse(args)
	r := seededRand(707)
	w := newTraceWriter(*out)
	defer os.RemoveAll(tmpDir())
	pool := []string{"hey", "miko", "cmd-help", "Hey", "a b", ".hidden", "ünï", "hey.bat", "sub/x", "a/b/c", "/abs/x", "", ".", "../x", "../tool",
		"../../../.bashrc", "sub/../../y", "../../../.config/notes.txt", "-x", "../wtf-aliases/back", "x/.."}
	directed := []struct {
		name string
		x    int
	}{{"hey", 0}, {"hey", 50}, {[]string{"", "."}[r.Intn(2)], 50}, {"", 99}, {"miko", 0}, {"", 50}}
	for s := 1; s <= *ns; s++ {
		home := filepath.Join(tmpDir(), fmt.Sprintf("alias%d", s))
		cliHome = home
		dir := filepath.Join(home, ".local", "bin", "wtf-aliases")
		os.MkdirAll(filepath.Join(home, "cwd"), 0o755)
		os.MkdirAll(filepath.Join(home, ".local", "bin"), 0o755)
		os.MkdirAll(filepath.Join(home, ".config"), 0o755)
		os.WriteFile(filepath.Join(home, ".bashrc"), []byte("# precious\n"), 0o644)
		os.WriteFile(filepath.Join(home, ".local", "bin", "tool"), []byte("#!/bin/sh\n"), 0o755)
		snap := func() (there bool, inside []string, outside map[string]string) {
			outside = map[string]string{}
			inside = []string{}
			if st, err := os.Stat(dir); err == nil && st.IsDir() {
				there = true
			}
			filepath.WalkDir(home, func(p string, d fs.DirEntry, err error) error {
				if err != nil || d.IsDir() {
					return nil
				}
				rel, _ := filepath.Rel(home, p)
				if filepath.Dir(p) == dir {
					inside = append(inside, d.Name())
					return nil
				}
				b, _ := os.ReadFile(p)
				outside[rel] = fmt.Sprintf("%x", sha256.Sum256(b))
				return nil
			})
			sort.Strings(inside)
			return
		}
		_, _, before := snap()
		emit := func(e *aliasEv, output string, code int) {
			there, inside, after := snap()
			e.Tr, e.There, e.Inside = s, there, inside
			e.Outside, e.Touched = []string{}, []string{}
			for k := range after {
				e.Outside = append(e.Outside, k)
				if before[k] != after[k] {
					e.Touched = append(e.Touched, k)
				}
			}
			for k := range before {
				if _, ok := after[k]; !ok {
					e.Touched = append(e.Touched, k)
				}
			}
			sort.Strings(e.Outside)
			sort.Strings(e.Touched)
			if e.Listed == nil {
				e.Listed = []string{}
			}
			e.Crash = strings.Contains(output, "panic:") || strings.Contains(output, "goroutine 1 [") || code < 0 || code > 2
			if e.Crash || len(e.Touched) > 0 {
				e.Output = output
			}
			before = after
			w.emit(e)
		}
		emit(&aliasEv{Op: "begin"}, "", 0)
		np := 4 + r.Intn(len(pool)-3)
		for i := 0; i < *length; i++ {
			name := pool[r.Intn(np)%len(pool)]
			if r.Intn(3) == 0 {
				name = pool[r.Intn(4)] // the ordinary names come back often: add twice, remove twice
			}
			x := r.Intn(100)
			if s%4 == 0 && i < len(directed) { // an alias comes and goes, then the directory itself is named
				name, x = directed[i].name, directed[i].x
			}
			kind, target := aliasKind(home, dir, name)
			eff := name
			if kind == "plain" {
				eff, target = target, ""
			}
			switch {
			case x < 45:
				o, code, _ := runWtf([]string{"alias", "add", name})
				emit(&aliasEv{Op: "add", Name: eff, Raw: name, Kind: kind, Target: target, OK: strings.Contains(o, "Added alias")}, o, code)
			case x < 75:
				o, code, _ := runWtf([]string{"alias", "remove", name})
				emit(&aliasEv{Op: "remove", Name: eff, Raw: name, Kind: kind, Target: target, OK: strings.Contains(o, "Removed alias")}, o, code)
			default:
				o, code, _ := runWtf([]string{"alias", "list"})
				e := &aliasEv{Op: "list", OK: code == 0, Listed: []string{}}
				for _, m := range reAliasLine.FindAllStringSubmatch(o, -1) {
					e.Listed = append(e.Listed, m[1])
				}
				emit(e, o, code)
			}
		}
		os.RemoveAll(home)
	}
	w.close()
	fmt.Printf("{\"sessions\": %d, \"events\": %d}\n", *ns, w.n)
	return 0
}
