package main

import (
	"fmt"
	"os"
)

func main() {
	if len(os.Args) < 2 {
		fmt.Fprintln(os.Stderr, "usage: vh <subcommand> [args]")
		os.Exit(2)
	}
	fn, ok := commands[os.Args[1]]
	if !ok {
		fmt.Fprintln(os.Stderr, "unknown subcommand", os.Args[1])
		os.Exit(2)
	}
	os.Exit(fn(os.Args[2:]))
}

var commands = map[string]func([]string) int{}
