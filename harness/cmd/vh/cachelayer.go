package main

import (
	"encoding/json"
	"flag"
	"fmt"
	"os"
	"sort"
	"strings"
	"time"

	"github.com/Vedant9500/WTF/internal/database"
)

func init() {
	commands["cache-tours"] = cacheTours
	commands["cache-random"] = cacheRandom
}

type cacheEv struct {
	Op    string `json:"op"`
	ID    int    `json:"id"`
	Q     string `json:"q"`
	O     string `json:"o"`
	Ans   int    `json:"ans"`
	Fresh int    `json:"fresh"`
	Hit   bool   `json:"hit"`
	Mon   bool   `json:"mon"`
	B     bool   `json:"b"`
	N     int    `json:"n"`
	Panic bool   `json:"panic"`
	Tr    int    `json:"tr"`
	NRes  int    `json:"nres"`
	// statistics of the search cache after the operation (X03: the layer composed with LRU.tla)
	SH  int64 `json:"sh"`
	SM  int64 `json:"sm"`
	SE  int64 `json:"se"`
	SZ  int   `json:"sz"`
	Cap int   `json:"cap"`
	TTL int   `json:"ttl"`
}

func (d *cacheDriver) emit(ev *cacheEv) {
	st := d.mdb.GetCacheStats()["search"]
	ev.SH, ev.SM, ev.SE, ev.SZ = st.Hits, st.Misses, st.Evictions, st.Size
	d.w.emit(ev)
}

type cacheDriver struct {
	forms int
	w     *traceWriter
	in    *interner
	c     *corpusT
	mdb   *database.MonitoredDatabase
	tr    int
	ver   int
	ttl   time.Duration
	base  []database.Command
	dirty bool
}

func optKey(o database.SearchOptions) string {
	boosts := []string{}
	for k, v := range o.ContextBoosts {
		boosts = append(boosts, fmt.Sprintf("%s=%g", k, v))
	}
	sort.Strings(boosts)
	return fmt.Sprintf("lim=%d|b=%s|po=%v|pb=%g|fz=%v|thr=%d|nlp=%v|cap=%d|ap=%v|pl=%s|nc=%v", o.Limit, strings.Join(boosts, ","), o.PipelineOnly, o.PipelineBoost,
		o.UseFuzzy, o.FuzzyThreshold, o.UseNLP, o.TopTermsCap, o.AllPlatforms, strings.Join(o.Platforms, ","), o.NoCrossPlatform)
}

func (d *cacheDriver) reset(corpus string, capacity int, ttlTicks int) {
	d.tr++
	src := getCorpus(corpus)
	// a private copy of the database (update-database mutates it); re-used by the next trace unless it was replaced
	if d.c == nil || d.dirty || d.c.name != corpus {
		db, err := database.LoadDatabase(src.file)
		if err != nil {
			fatal("reload %s: %v", src.file, err)
		}
		d.c = wrapCorpus(corpus, db, src.cmds, src.file)
		d.base = append([]database.Command(nil), db.Commands...)
		d.dirty = false
	}
	d.ttl = 0
	if ttlTicks > 0 {
		d.ttl = time.Duration(ttlTicks)*time.Hour + 30*time.Minute
	}
	d.mdb = database.VerifNewMonitoredDatabase(d.c.db, capacity, d.ttl)
	d.ver = 1
	d.emit(&cacheEv{Op: "reset", Tr: d.tr, Cap: capacity, TTL: ttlTicks})
}

func (d *cacheDriver) hits() int64 { return d.mdb.GetCacheStats()["search"].Hits }

// rebuild the doc index after the command slice was replaced
func (d *cacheDriver) reindex() {
	d.c = wrapCorpus(d.c.name, d.c.db, d.c.cmds, d.c.file)
}

func (d *cacheDriver) search(q string, o database.SearchOptions, mon bool) {
	ev := &cacheEv{Op: "search", Tr: d.tr, Q: q, O: optKey(o), Mon: mon}
	if len(ev.Q) > 60 {
		ev.Q = ev.Q[:60]
	}
	ev.ID = d.in.str(d.in.keys, strings.ToLower(strings.TrimSpace(q))+"\x00"+optKey(o))
	func() {
		defer func() {
			if r := recover(); r != nil {
				ev.Panic = true
			}
		}()
		h0 := d.hits()
		var res []database.SearchResult
		if mon {
			res = d.mdb.SearchWithOptionsAndMonitoring(q, o)
		} else {
			// three names for the same request (the wrappers' fuzzy and pipeline forms take the options as given)
			d.forms++
			switch d.forms % 3 {
			case 0:
				res = d.mdb.SearchWithOptionsAndCache(q, o)
			case 1:
				res = d.mdb.SearchWithFuzzyAndCache(q, o)
			default:
				res = d.mdb.SearchWithPipelineOptionsAndCache(q, o)
			}
		}
		ev.Hit = d.hits() > h0
		ev.NRes = len(res)
		ev.Ans = d.in.answerID(d.c, toHits(res))
		// the caller owns the answer: re-sort and rescale it in place, as a display layer might
		for i, j := 0, len(res)-1; i < j; i, j = i+1, j-1 {
			res[i], res[j] = res[j], res[i]
		}
		for i := range res {
			res[i].Score = -1
		}
		// oracle: the uncached engine on the same database, now
		ev.Fresh = d.in.answerID(d.c, toHits(d.mdb.SearchUniversal(q, o)))
	}()
	d.emit(ev)
}

func (d *cacheDriver) update(version int) {
	cmds := append([]database.Command(nil), d.base...)
	switch version % 7 {
	case 3: // replaced by nothing at all
		cmds = nil
	case 4: // ... by an empty list
		cmds = []database.Command{}
	case 5: // ... by a single command
		cmds = cmds[:1]
	case 6: // grown: every command twice
		cmds = append(cmds, d.base...)
	case 0: // drop every third command
		var keep []database.Command
		for i, c := range cmds {
			if i%3 != 0 {
				keep = append(keep, c)
			}
		}
		cmds = keep
	case 2: // same size, different contents (reverse order)
		for i, j := 0, len(cmds)-1; i < j; i, j = i+1, j-1 {
			cmds[i], cmds[j] = cmds[j], cmds[i]
		}
	}
	d.mdb.UpdateDatabase(cmds)
	d.dirty = true
	d.ver = version
	d.reindex()
	d.emit(&cacheEv{Op: "update", N: version, Tr: d.tr})
}

func (d *cacheDriver) apply(op []interface{}) {
	switch op[0].(string) {
	case "invalidate":
		d.mdb.InvalidateCache()
		d.emit(&cacheEv{Op: "invalidate", Tr: d.tr})
	case "enable":
		b := op[1].(bool)
		d.mdb.EnableCache(b)
		d.emit(&cacheEv{Op: "enable", B: b, Tr: d.tr})
	case "cleanup":
		n := d.mdb.CleanupExpiredCache()["search"]
		d.emit(&cacheEv{Op: "cleanup", N: n, Tr: d.tr})
	case "tick":
		if d.ttl > 0 {
			d.mdb.VerifAdvance(time.Hour)
		}
		d.emit(&cacheEv{Op: "tick", Tr: d.tr})
	case "update":
		d.update(num(op[1]))
	case "stats":
		d.mdb.GetCacheStats()
		d.emit(&cacheEv{Op: "stats", Tr: d.tr})
	}
}

type cacheTour struct {
	Corpus string          `json:"corpus"`
	Cap    int             `json:"cap"`
	TTL    int             `json:"ttl"`
	Ops    [][]interface{} `json:"ops"` // ["search", query, optionsJSON, monitored] | ["invalidate"] | ...
}

func decodeOpts(x interface{}) database.SearchOptions {
	b, _ := json.Marshal(x)
	var s scenario
	json.Unmarshal(b, &s)
	return s.options()
}

func cacheTours(args []string) int {
	fs := flag.NewFlagSet("cache-tours", flag.ExitOnError)
	in := fs.String("in", "", "tours")
	out := fs.String("out", "", "trace")
	fs.Parse(args)
	d := &cacheDriver{w: newTraceWriter(*out), in: newInterner()}
	defer os.RemoveAll(tmpDir())
	n := 0
	readJSONLines(*in, func(raw []byte) {
		var t cacheTour
		if err := json.Unmarshal(raw, &t); err != nil {
			fatal("bad tour: %v", err)
		}
		d.reset(t.Corpus, t.Cap, t.TTL)
		for _, op := range t.Ops {
			if op[0].(string) == "search" {
				d.search(op[1].(string), decodeOpts(op[2]), op[3].(bool))
			} else {
				d.apply(op)
			}
		}
		n++
	})
	d.w.close()
	fmt.Printf("{\"tours\": %d, \"events\": %d}\n", n, d.w.n)
	return 0
}

// cacheRandom: long random histories, including the shipped database
func cacheRandom(args []string) int {
	fs := flag.NewFlagSet("cache-random", flag.ExitOnError)
	out := fs.String("out", "", "trace")
	ntr := fs.Int("traces", 30, "traces")
	length := fs.Int("len", 80, "ops")
	pool := fs.Int("pool", 0, "draw the requests of a trace from a pool of this many (query, options) pairs, so that hits, evictions and expiry are frequent")
	fs.Parse(args)
	r := seededRand(5)
	d := &cacheDriver{w: newTraceWriter(*out), in: newInterner()}
	defer os.RemoveAll(tmpDir())
	synth := []string{"frobnicate widget", "FROBNICATE Widget", " frobnicate widget ", "frobnicte", "Frobnicte", "widget", "zq1 qqqqzzzz", "destroy",
		"frobnicate widget number item question scattered decoy"}
	readme := []string{"compress a directory", "Compress a Directory", "find files by name", "git commit changes", "disk usage", "DISK usage", "comprss fles",
		"list files", "kill process by name", "docker commands", "undo last git commit"}
	for t := 0; t < *ntr; t++ {
		corpus := "mix"
		qs := synth
		if t%5 == 4 {
			corpus, qs = "shipped", readme
		}
		d.reset(corpus, []int{1, 2, 3, 50}[r.Intn(4)], r.Intn(3))
		nq := 2 + r.Intn(len(qs)-1)
		base := scenario{Limit: 5}
		type request struct {
			q string
			o database.SearchOptions
		}
		var reqs []request
		for k := 0; k < *pool; k++ {
			s := base
			s.Limit = []int{1, 3, 5, 7}[r.Intn(4)]
			s.NLP, s.Fuzzy, s.AllPlat = r.Intn(2) == 0, r.Intn(2) == 0, r.Intn(2) == 0
			reqs = append(reqs, request{qs[r.Intn(nq)], s.options()})
		}
		// one option value the caller keeps and edits in place between searches (the platform list and the boost map are
		// the same objects every time)
		shared := database.SearchOptions{Limit: 5, Platforms: []string{"linux"}, ContextBoosts: map[string]float64{"frobnicate": 2, "widget": 1.3}}
		for i := 0; i < *length; i++ {
			switch x := r.Intn(100); {
			case x < 14:
				if r.Intn(2) == 0 {
					shared.Platforms[0] = []string{"linux", "windows", "macos"}[r.Intn(3)]
				} else {
					shared.ContextBoosts["frobnicate"] = []float64{1.5, 2, 3}[r.Intn(3)]
				}
				d.search(qs[0], shared, r.Intn(3) == 0)
			case x < 70 && len(reqs) > 0:
				rq := reqs[r.Intn(len(reqs))]
				d.search(rq.q, rq.o, r.Intn(3) == 0)
			case x < 70:
				s := base
				// vary one or two option fields around the base vector
				for k := 0; k < 1+r.Intn(2); k++ {
					switch r.Intn(12) {
					case 0:
						s.Limit = []int{0, 1, 3, 5, 7, 40}[r.Intn(6)]
					case 1:
						s.Boost = true
						s.BoostV = r.Intn(4)
					case 2:
						s.POnly = true
					case 3:
						s.PBoost = true
					case 4:
						s.Fuzzy = true
					case 5:
						s.Fuzzy, s.Thr = true, -30
					case 6:
						s.NLP = true
					case 7:
						s.Cap = []int{1, 2, 5}[r.Intn(3)]
					case 8:
						s.AllPlat = true
					case 9:
						s.Plats = [][]string{{"windows"}, {"macos"}, {"linux", "windows"}}[r.Intn(3)]
					case 10:
						s.NoCross = true
					}
				}
				d.search(qs[r.Intn(nq)], s.options(), r.Intn(3) == 0)
			case x < 76:
				d.apply([]interface{}{"invalidate"})
			case x < 82:
				d.apply([]interface{}{"enable", r.Intn(3) != 0})
			case x < 87:
				d.apply([]interface{}{"cleanup"})
			case x < 93:
				d.apply([]interface{}{"tick"})
			case x < 96:
				d.apply([]interface{}{"stats"})
			default:
				if corpus != "shipped" || r.Intn(4) == 0 {
					d.update(1 + r.Intn(7))
				}
			}
		}
	}
	d.w.close()
	fmt.Printf("{\"traces\": %d, \"events\": %d}\n", *ntr, d.w.n)
	return 0
}
