package main

import (
	"flag"
	"fmt"
	"os"
	"path/filepath"
	"regexp"
	"strconv"
	"strings"

	"github.com/Vedant9500/WTF/internal/validation"
)

func init() { commands["session-run"] = sessionRun }

type sesEv struct {
	Op       string `json:"op"`
	Tr       int    `json:"tr"`
	Q        int    `json:"q"`
	Accepted bool   `json:"accepted"`
	Crash    bool   `json:"crash"`
	N        int    `json:"n"`
	Res      any    `json:"res"`
	Total    int    `json:"total"`
	Unique   int    `json:"unique"`
	Match    []int  `json:"match"`
	Disk     []int  `json:"disk"`
	Argv     string `json:"argv,omitempty"`
}

var reRecentLine = regexp.MustCompile(`(?m)^(\d+)\. (.*)$`)
var reTopLine = regexp.MustCompile(`(?m)^(\d+)\. "(.*)" \((\d+) times, last used: [^)]*\)$`)
var rePatLine = regexp.MustCompile(`(?m)^(\d+)\. "(.*)" \((\d+) results, [^)]*\)$`)
var reTotal = regexp.MustCompile(`Total searches: (\d+)`)
var reUnique = regexp.MustCompile(`Unique queries: (\d+)`)

func sessionRun(args []string) int {
	fs := flag.NewFlagSet("session-run", flag.ExitOnError)
	out := fs.String("out", "", "trace")
	ns := fs.Int("sessions", 20, "sessions")
	length := fs.Int("len", 25, "commands per session")
	fs.Parse(args)
	r := seededRand(22)
	w := newTraceWriter(*out)
	defer os.RemoveAll(tmpDir())
	mix := getCorpus("mix")
	qids := map[string]int{}
	qid := func(s string) int {
		if id, ok := qids[s]; ok {
			return id
		}
		qids[s] = len(qids) + 1
		return qids[s]
	}
	pool := []string{"frobnicate widget", "Frobnicate Widget", "  frobnicate   widget ", "delete item", "zq1 qqqqzzzz", "qqqqzzzz", "widget number", "list | files", "   ",
		"docker ps", "Docker PS", "install item"}
	for s := 1; s <= *ns; s++ {
		cliHome = filepath.Join(tmpDir(), fmt.Sprintf("session%d", s))
		os.MkdirAll(filepath.Join(cliHome, "cwd"), 0o755)
		histFile := filepath.Join(cliHome, ".config", "wtf", "search_history.json")
		disk := func() []int {
			d := []int{}
			if b, err := os.ReadFile(histFile); err == nil {
				qs, _ := histQueries(b)
				for _, q := range qs {
					d = append(d, qid(q))
				}
			}
			return d
		}
		crashed := func(o string, code int) bool {
			return strings.Contains(o, "panic:") || strings.Contains(o, "goroutine 1 [") || code < 0 || code > 2
		}
		emit := func(ev *sesEv) {
			ev.Tr = s
			ev.Disk = disk()
			if ev.Res == nil {
				ev.Res = []int{}
			}
			if ev.Match == nil {
				ev.Match = []int{}
			}
			w.emit(ev)
		}
		emit(&sesEv{Op: "begin"})
		nq := 3 + r.Intn(len(pool)-3)
		for i := 0; i < *length; i++ {
			switch x := r.Intn(100); {
			case x < 55:
				q := pool[r.Intn(nq)]
				if r.Intn(4) == 0 && i > 0 {
					q = pool[r.Intn(2)] // encourage immediate repeats
				}
				o, code, _ := runWtf([]string{"search", "--database", mix.file, "--limit", "3", "--", q})
				cq, verr := validation.ValidateQuery(q)
				ev := &sesEv{Op: "search", Accepted: verr == nil, Crash: crashed(o, code), Argv: q}
				if verr == nil {
					ev.Q = qid(cq)
				}
				emit(ev)
			case x < 70:
				n := []int{0, 1, 2, 3, 10}[r.Intn(5)]
				a := []string{"history"}
				if n > 0 {
					a = append(a, "--limit", strconv.Itoa(n))
				} else {
					n = 10
				}
				o, code, _ := runWtf(a)
				res := []int{}
				if i := strings.Index(o, "Recent Searches"); i >= 0 {
					body := o[i:]
					if j := strings.Index(body, "\nTo run a search again"); j >= 0 {
						body = body[:j]
					}
					for _, m := range reRecentLine.FindAllStringSubmatch(body, -1) {
						res = append(res, qid(m[2]))
					}
				}
				emit(&sesEv{Op: "recent", N: n, Res: res, Crash: crashed(o, code)})
			case x < 80:
				n := []int{1, 2, 5, 10}[r.Intn(4)]
				o, code, _ := runWtf([]string{"history", "--top", "--limit", strconv.Itoa(n)})
				res := [][]int{}
				for _, m := range reTopLine.FindAllStringSubmatch(o, -1) {
					c, _ := strconv.Atoi(m[3])
					res = append(res, []int{qid(m[2]), c})
				}
				emit(&sesEv{Op: "top", N: n, Res: res, Crash: crashed(o, code)})
			case x < 87:
				o, code, _ := runWtf([]string{"history", "--stats"})
				ev := &sesEv{Op: "stats", Crash: crashed(o, code)}
				if m := reTotal.FindStringSubmatch(o); m != nil {
					ev.Total, _ = strconv.Atoi(m[1])
				}
				if m := reUnique.FindStringSubmatch(o); m != nil {
					ev.Unique, _ = strconv.Atoi(m[1])
				}
				emit(ev)
			case x < 95:
				pat := []string{"frob", "WIDGET", "item", "zzz", "docker", " "}[r.Intn(6)]
				n := []int{1, 3, 10}[r.Intn(3)]
				o, code, _ := runWtf([]string{"history", "--limit", strconv.Itoa(n), "--", pat})
				res := []int{}
				for _, m := range rePatLine.FindAllStringSubmatch(o, -1) {
					res = append(res, qid(m[2]))
				}
				var match []int
				for q, id := range qids {
					if strings.Contains(strings.ToLower(q), strings.ToLower(pat)) {
						match = append(match, id)
					}
				}
				emit(&sesEv{Op: "pattern", N: n, Res: res, Match: sortedInts(match), Crash: crashed(o, code), Argv: pat})
			default:
				o, code, _ := runWtf([]string{"history", "--clear"})
				emit(&sesEv{Op: "clear", Crash: crashed(o, code)})
			}
		}
		os.RemoveAll(cliHome)
	}
	w.close()
	fmt.Printf("{\"sessions\": %d, \"events\": %d}\n", *ns, w.n)
	return 0
}
