package main

import (
	"bytes"
	"encoding/json"
	"flag"
	"fmt"
	"os"
	"os/exec"
	"path/filepath"
	"regexp"
	"strconv"
	"strings"
	"syscall"
	"time"

	"github.com/Vedant9500/WTF/internal/database"
	"github.com/Vedant9500/WTF/internal/history"
	"github.com/Vedant9500/WTF/internal/utils"
)

func init() {
	commands["limit-exec"] = limitExec
	commands["atomic-run"] = atomicRun
}

// limitExec: limit-exec <bytes> <program> [args...]  sets RLIMIT_FSIZE and replaces itself by the program
func limitExec(args []string) int {
	k, _ := strconv.ParseUint(args[0], 10, 64)
	lim := syscall.Rlimit{Cur: k, Max: k}
	if err := syscall.Setrlimit(syscall.RLIMIT_FSIZE, &lim); err != nil {
		fatal("setrlimit: %v", err)
	}
	if err := syscall.Exec(args[1], args[1:], os.Environ()); err != nil {
		fatal("exec: %v", err)
	}
	return 2
}

type atEv struct {
	Op      string `json:"op"`
	Tr      int    `json:"tr"`
	File    string `json:"file"`
	Cmd     string `json:"cmd"`
	HadOld  bool   `json:"hadold"`
	Call    string `json:"call"`
	Bytes   int    `json:"bytes"`
	Total   int    `json:"total"`
	Kind    string `json:"kind"`
	At      string `json:"at"`
	After   string `json:"after"`
	Loads   bool   `json:"loads"`
	Success bool   `json:"success"`
	Note    string `json:"note,omitempty"`
}

type atScenario struct {
	file    string // notebook | history
	cmd     string // save | save-pipeline | search
	oldSize int    // entries in the old file; -1 = absent
}

type atDriver struct {
	w      *traceWriter
	tr     int
	home   string
	mainF  string
	self   string
	wtf    string
	strace string
}

func (d *atDriver) target(sc atScenario) string {
	if sc.file == "notebook" {
		return filepath.Join(d.home, ".config", "cmd-finder", "personal.yml")
	}
	return filepath.Join(d.home, ".config", "wtf", "search_history.json")
}

func (d *atDriver) args(sc atScenario) []string {
	switch sc.cmd {
	case "save", "resave":
		return []string{"save", "--keywords", "zqa,zqb", "--", "rsync -av --delete src/ dst/", "Mirror a directory: with 'quotes' and # hash"}
	case "save-pipeline", "repipe":
		return []string{"save-pipeline", "--", "errors", "grep ERROR app.log | sort | uniq -c"}
	}
	return []string{"search", "--database", d.mainF, "--", "list", "directory"}
}

func (d *atDriver) env() []string {
	return []string{"HOME=" + d.home, "XDG_CONFIG_HOME=" + filepath.Join(d.home, ".config"), "PATH=/usr/bin:/bin", "NO_COLOR=1", "GOMAXPROCS=1"}
}

func (d *atDriver) writeOld(sc atScenario) []byte {
	t := d.target(sc)
	os.RemoveAll(filepath.Join(d.home, ".config"))
	os.MkdirAll(filepath.Dir(t), 0o755)
	if sc.oldSize < 0 {
		return nil
	}
	if sc.file == "notebook" {
		var cmds []database.Command
		for i := 0; i < sc.oldSize; i++ {
			cmds = append(cmds, database.Command{Command: fmt.Sprintf("old-command-%d --flag", i), Description: fmt.Sprintf("Old entry number %d", i), Keywords: []string{"old", "entry"}})
			if sc.cmd == "repipe" && i == sc.oldSize/2 { // a pipeline saved earlier under the name about to be used again, with another command line
				cmds = append(cmds, database.Command{Command: "grep WARN app.log | sort | uniq", Description: "errors - 3-step pipeline",
					Keywords: []string{"pipeline", "workflow", "search", "filter", "sort", "order"}, Pipeline: true})
			}
			if sc.cmd == "resave" && i == sc.oldSize/2 { // the command about to be saved is already there: the save replaces this entry
				cmds = append(cmds, database.Command{Command: "rsync -av --delete src/ dst/", Description: "an earlier description", Keywords: []string{"earlier"}})
			}
		}
		writeYAML(t, cmds)
	} else {
		h := history.NewSearchHistory(t, 100)
		for i := 0; i < sc.oldSize; i++ {
			h.AddEntry(fmt.Sprintf("old query %d", i), i%5, "ctx", 0)
		}
		h.Save()
	}
	b, _ := os.ReadFile(t)
	return b
}

func histQueries(b []byte) ([]string, bool) {
	var h struct {
		Entries []struct {
			Query string `json:"query"`
		} `json:"entries"`
	}
	if err := json.Unmarshal(b, &h); err != nil {
		return nil, false
	}
	var qs []string
	for _, e := range h.Entries {
		qs = append(qs, e.Query)
	}
	return qs, true
}

// classify what is at the target path now
func (d *atDriver) classify(sc atScenario, old, neu []byte) (after string, loads bool) {
	t := d.target(sc)
	b, err := os.ReadFile(t)
	if err != nil {
		if old == nil {
			return "old", true
		}
		return "absent", false
	}
	if sc.file == "notebook" {
		_, lerr := database.LoadDatabase(t)
		loads = lerr == nil
		switch {
		case old != nil && bytes.Equal(b, old):
			return "old", loads
		case bytes.Equal(b, neu):
			return "new", loads
		}
		return "damaged", loads
	}
	h := history.NewSearchHistory(t, 100)
	loads = h.Load() == nil
	qs, ok := histQueries(b)
	oq, _ := histQueries(old)
	nq, _ := histQueries(neu)
	switch {
	case ok && old != nil && strings.Join(qs, "\x00") == strings.Join(oq, "\x00") && len(qs) == len(oq):
		return "old", loads
	case ok && strings.Join(qs, "\x00") == strings.Join(nq, "\x00") && len(qs) == len(nq):
		return "new", loads
	}
	return "damaged", loads && ok
}

func (d *atDriver) run(prefix []string, sc atScenario) (string, int) {
	return d.runArgs(prefix, d.args(sc))
}

func (d *atDriver) runArgs(prefix []string, args []string) (string, int) {
	argv := append(append([]string{}, prefix...), d.wtf)
	argv = append(argv, args...)
	cmd := exec.Command(argv[0], argv[1:]...)
	cmd.Dir = filepath.Join(d.home, "cwd")
	cmd.Env = d.env()
	var ob bytes.Buffer
	cmd.Stdout, cmd.Stderr = &ob, &ob
	err := cmd.Run()
	code := 0
	if err != nil {
		code = 1
		if ee, ok := err.(*exec.ExitError); ok {
			code = ee.ExitCode()
		}
	}
	return ob.String(), code
}

var reOpen = regexp.MustCompile(`openat\(AT_FDCWD(?:<[^>]*>)?, "([^"]*)", ([A-Z_|0-9]+)(?:, [0-7]+)?\) = (\d+)`)
var reFdCall = regexp.MustCompile(`^\d+\s+(write|fsync|fdatasync|close|ftruncate)\((\d+)<([^>]*)>`)
var reRename = regexp.MustCompile(`rename(?:at2?)?\((?:AT_FDCWD(?:<[^>]*>)?, )?"([^"]*)", (?:AT_FDCWD(?:<[^>]*>)?, )?"([^"]*)"`)

// sysEvents turns an strace log into abstract calls on the target and on temporary files beside it
func sysEvents(log string, target string) (evs []string, writes []int) {
	reRet := regexp.MustCompile(`\) = (\d+)`)
	dir := filepath.Dir(target)
	for _, line := range strings.Split(log, "\n") {
		if strings.Contains(line, "= -1 ") && !strings.Contains(line, "INJECTED") {
			continue
		}
		if m := reOpen.FindStringSubmatch(line); m != nil {
			p, flags := m[1], m[2]
			if !strings.Contains(flags, "O_WRONLY") && !strings.Contains(flags, "O_RDWR") {
				continue
			}
			if p == target && strings.Contains(flags, "O_TRUNC") {
				evs = append(evs, "open_trunc")
			} else if p == target {
				evs = append(evs, "open_trunc") // any writing open of the live file counts as in-place
			} else if filepath.Dir(p) == dir {
				if strings.Contains(flags, "O_EXCL") || strings.Contains(flags, "O_TRUNC") {
					evs = append(evs, "open_tmp")
				} else {
					evs = append(evs, "open_tmp_keep") // neither insists on a new file nor empties an existing one
				}
			}
			continue
		}
		if m := reFdCall.FindStringSubmatch(line); m != nil {
			call, p := m[1], m[3]
			if p != target && filepath.Dir(p) != dir {
				continue
			}
			which := "tmp"
			if p == target {
				which = "target"
			}
			switch call {
			case "write":
				evs = append(evs, "write_"+which)
				n := 0
				if r := reRet.FindStringSubmatch(line); r != nil {
					n, _ = strconv.Atoi(r[1])
				}
				writes = append(writes, n)
			case "fsync", "fdatasync":
				evs = append(evs, "fsync")
			case "close":
				if len(evs) > 0 {
					evs = append(evs, "close")
				}
			case "ftruncate":
				if which == "target" {
					evs = append(evs, "open_trunc")
				}
			}
			continue
		}
		if m := reRename.FindStringSubmatch(line); m != nil {
			if m[2] == target {
				evs = append(evs, "rename")
			} else if m[1] == target {
				evs = append(evs, "rename_away") // the live file is moved out of its place
			}
		}
	}
	// drop closes of read-only opens that precede any writing open
	out := []string{}
	opened := false
	for _, e := range evs {
		if strings.HasPrefix(e, "open_") {
			opened = true
		}
		if e == "close" && !opened {
			continue
		}
		if e == "close" {
			opened = false
		}
		out = append(out, e)
	}
	return out, writes
}

var reLine = regexp.MustCompile(`^(\d+)\s+([a-z0-9_]+)\((.*)$`)

// writePathOrdinals: per system call name, the ordinals (among the main thread's calls of that name) of the calls that
// create, write, sync, close or rename the target file or a file in its directory
func writePathOrdinals(log, target string) map[string][]int {
	dir := filepath.Dir(target)
	out := map[string][]int{}
	count := map[string]int{}
	mainPid := ""
	for _, line := range strings.Split(log, "\n") {
		m := reLine.FindStringSubmatch(line)
		if m == nil {
			continue
		}
		if mainPid == "" {
			mainPid = m[1]
		}
		if m[1] != mainPid {
			continue
		}
		call, rest := m[2], m[3]
		count[call]++
		touches := false
		switch call {
		case "openat":
			if om := reOpen.FindStringSubmatch(line); om != nil {
				wr := strings.Contains(om[2], "O_WRONLY") || strings.Contains(om[2], "O_RDWR") || strings.Contains(om[2], "O_CREAT")
				touches = wr && (om[1] == target || filepath.Dir(om[1]) == dir)
			} else if strings.Contains(rest, dir) && (strings.Contains(rest, "O_WRONLY") || strings.Contains(rest, "O_RDWR") || strings.Contains(rest, "O_CREAT")) {
				touches = true
			}
		case "rename", "renameat", "renameat2":
			touches = strings.Contains(rest, target)
		default:
			if fm := regexp.MustCompile(`^(\d+)<([^>]*)>`).FindStringSubmatch(rest); fm != nil {
				touches = fm[2] == target || filepath.Dir(fm[2]) == dir
			}
		}
		if touches {
			out[call] = append(out[call], count[call])
		}
	}
	return out
}

func atomicRun(args []string) int {
	fs := flag.NewFlagSet("atomic-run", flag.ExitOnError)
	out := fs.String("out", "", "trace")
	every := fs.Int("every", 7, "try every n-th prefix length (1 = all)")
	fs.Parse(args)
	d := &atDriver{w: newTraceWriter(*out)}
	defer os.RemoveAll(tmpDir())
	d.home = filepath.Join(tmpDir(), "athome")
	os.MkdirAll(filepath.Join(d.home, "cwd"), 0o755)
	d.mainF = filepath.Join(tmpDir(), "at-main.yml")
	os.WriteFile(d.mainF, []byte(mainYAML), 0o644)
	d.self, _ = os.Executable()
	d.wtf = os.Getenv("VERIF_WTF")
	if d.wtf == "" {
		fatal("VERIF_WTF is not set")
	}
	var err error
	d.strace, err = exec.LookPath("strace")
	if err != nil {
		fatal("strace not found")
	}
	scenarios := []atScenario{{"notebook", "save", -1}, {"notebook", "save", 0}, {"notebook", "save", 1}, {"notebook", "save", 25}, {"notebook", "save-pipeline", 3}, {"notebook", "resave", 1}, {"notebook", "resave", 6}, {"notebook", "repipe", 2},
		{"history", "search", -1}, {"history", "search", 1}, {"history", "search", 40}}
	for _, sc := range scenarios {
		d.tr++
		label := fmt.Sprintf("%s/%s/old=%d", sc.file, sc.cmd, sc.oldSize)
		// 1. fault-free run under strace: the system calls on the target and its directory
		old := d.writeOld(sc)
		slog := filepath.Join(tmpDir(), "strace.log")
		so, _ := d.run([]string{d.strace, "-f", "-y", "-o", slog, "-e", "trace=openat,write,rename,renameat,renameat2,ftruncate,fsync,fdatasync,close,unlink,unlinkat,fchmod"}, sc)
		logb, _ := os.ReadFile(slog)
		neu, _ := os.ReadFile(d.target(sc))
		d.w.emit(&atEv{Op: "begin", Tr: d.tr, File: sc.file, Cmd: sc.cmd, HadOld: old != nil, Note: label})
		calls, wr := sysEvents(string(logb), d.target(sc))
		wi := 0
		for _, c := range calls {
			ev := &atEv{Op: "sys", Tr: d.tr, File: sc.file, Cmd: sc.cmd, Call: c, HadOld: old != nil, Total: len(neu)}
			if strings.HasPrefix(c, "write_") && wi < len(wr) {
				ev.Bytes = wr[wi]
				wi++
			}
			d.w.emit(ev)
		}
		d.w.emit(&atEv{Op: "end", Tr: d.tr, File: sc.file, Cmd: sc.cmd, HadOld: old != nil})
		if neu == nil || (sc.file == "notebook" && !strings.Contains(so, "saved successfully")) {
			fatal("fault-free %s did not produce the new content: %s", label, lastLines(so, 3))
		}
		fault := func(kind, at string, prefix []string) {
			d.writeOld(sc)
			o, _ := d.run(prefix, sc)
			after, loads := d.classify(sc, old, neu)
			d.tr++
			d.w.emit(&atEv{Op: "fault", Tr: d.tr, File: sc.file, Cmd: sc.cmd, Kind: kind, At: at, After: after, Loads: loads, HadOld: old != nil,
				Success: sc.file == "notebook" && strings.Contains(o, "saved successfully"), Note: label})
		}
		// 2. the write stops after k bytes (file size limit): every / every n-th prefix length
		for k := 0; k <= len(neu); k++ {
			if k%*every != 0 && k != len(neu) && k != len(neu)-1 && k != 1 && k != len(old) {
				continue
			}
			fault("fsize", strconv.Itoa(k), []string{d.self, "limit-exec", strconv.Itoa(k)})
		}
		// 3. a system call of the write path returns an error, or the process is killed there: the i-th call of that kind
		// made by the main thread, for those ordinals at which the fault-free run touched the target or a file beside it
		ords := writePathOrdinals(string(logb), d.target(sc))
		for _, inj := range []string{"write:error=ENOSPC", "write:error=EIO", "write:signal=SIGKILL", "openat:error=EACCES", "openat:error=ENOSPC", "openat:signal=SIGKILL",
			"rename:error=EIO", "rename:signal=SIGKILL", "renameat:error=EIO", "renameat:signal=SIGKILL", "renameat2:error=EIO", "fsync:error=EIO", "fsync:signal=SIGKILL",
			"close:error=EIO", "close:signal=SIGKILL", "ftruncate:error=EIO", "fchmod:error=EPERM", "fchmod:signal=SIGKILL"} {
			call := strings.SplitN(inj, ":", 2)[0]
			for _, i := range ords[call] {
				fault("inject:"+inj, strconv.Itoa(i), []string{d.strace, "-f", "-o", os.DevNull, "-e", "trace=" + call, "-e", fmt.Sprintf("inject=%s:when=%d", inj, i)})
			}
		}
		// 4. two runs: the first is cut after k bytes and killed before it can clean up (whatever it created stays behind),
		// the second - a shorter save - succeeds; the notebook must then be exactly what the second save produces from the
		// state the first one left
		if sc.file == "notebook" && sc.oldSize >= 1 {
			short := []string{"save", "--", "x", "y"}
			for _, k := range []int{len(neu) - 1, len(neu) - 40, len(old) + 60, len(old) + 20, len(old) / 2} {
				if k < 1 || k >= len(neu) {
					continue
				}
				d.writeOld(sc)
				d.run([]string{d.self, "limit-exec", strconv.Itoa(k), d.strace, "-f", "-o", os.DevNull, "-e", "trace=unlink,unlinkat", "-e", "inject=unlink,unlinkat:signal=SIGKILL:when=1"}, sc)
				left, _ := filepath.Glob(filepath.Join(filepath.Dir(d.target(sc)), "*"))
				b1, err1 := os.ReadFile(d.target(sc))
				o2, _ := d.runArgs(nil, short)
				r2, _ := os.ReadFile(d.target(sc))
				_, lerr := database.LoadDatabase(d.target(sc))
				// the same second save from the same notebook content in a directory with nothing else in it
				os.RemoveAll(filepath.Join(d.home, ".config"))
				os.MkdirAll(filepath.Dir(d.target(sc)), 0o755)
				if err1 == nil {
					os.WriteFile(d.target(sc), b1, 0o644)
				}
				d.runArgs(nil, short)
				e2, _ := os.ReadFile(d.target(sc))
				after := "new"
				if !bytes.Equal(r2, e2) {
					after = "damaged"
				}
				d.tr++
				d.w.emit(&atEv{Op: "fault", Tr: d.tr, File: sc.file, Cmd: sc.cmd, Kind: "leftover", At: strconv.Itoa(k), After: after, Loads: lerr == nil, HadOld: true,
					Success: strings.Contains(o2, "saved successfully"), Note: fmt.Sprintf("%s; %d files beside the notebook after the killed run", label, len(left)-1)})
			}
		}
	}
	// 4b. the same for the history: the first search is killed while saving after k bytes - at every k where what has been
	// written so far ends in a closing brace (looks complete to a careless reader) and a few others - then another search runs
	{
		sc := atScenario{"history", "search", 12}
		old := d.writeOld(sc)
		d.run(nil, sc)
		neu, _ := os.ReadFile(d.target(sc))
		ks := []int{1, len(neu) / 3, len(neu) - 2}
		for k := 2; k < len(neu); k++ {
			t := bytes.TrimSpace(neu[:k])
			if len(t) > 0 && t[len(t)-1] == '}' && (neu[k-1] == '}' || k%2 == 0) {
				ks = append(ks, k)
			}
		}
		if len(ks) > 40 {
			ks = ks[:40]
		}
		second := []string{"search", "--database", d.mainF, "--", "compress", "archive"}
		for _, k := range ks {
			d.writeOld(sc)
			d.run([]string{d.self, "limit-exec", strconv.Itoa(k), d.strace, "-f", "-o", os.DevNull, "-e", "trace=unlink,unlinkat", "-e", "inject=unlink,unlinkat:signal=SIGKILL:when=1"}, sc)
			b1, err1 := os.ReadFile(d.target(sc))
			d.runArgs(nil, second)
			r2, _ := os.ReadFile(d.target(sc))
			h2 := history.NewSearchHistory(d.target(sc), 100)
			loads := h2.Load() == nil
			got, parsed := histQueries(r2)
			os.RemoveAll(filepath.Join(d.home, ".config"))
			os.MkdirAll(filepath.Dir(d.target(sc)), 0o755)
			if err1 == nil {
				os.WriteFile(d.target(sc), b1, 0o644)
			}
			d.runArgs(nil, second)
			e2, _ := os.ReadFile(d.target(sc))
			want, _ := histQueries(e2)
			after := "damaged"
			if parsed && loads && strings.Join(got, "\x00") == strings.Join(want, "\x00") && len(got) == len(want) {
				after = "new"
			}
			d.tr++
			d.w.emit(&atEv{Op: "fault", Tr: d.tr, File: "history", Cmd: "search", Kind: "leftover", At: strconv.Itoa(k), After: after, Loads: loads && parsed, HadOld: old != nil,
				Success: false, Note: fmt.Sprintf("history/search/old=12; first search killed after %d bytes of its save, %d entries afterwards (expected %d)", k, len(got), len(want))})
		}
	}
	// 4c. a write that fails part-way once and would succeed on a second try (a disk that is full for a moment): whatever the
	// writer does about it, the file ends up old (and an error is returned) or new
	for _, k := range []uint64{1, 100, 3000} {
		tp := filepath.Join(tmpDir(), fmt.Sprintf("transient-%d", k), "personal.yml")
		os.MkdirAll(filepath.Dir(tp), 0o755)
		oldData := []byte(strings.Repeat("- command: old entry\n  description: something saved earlier\n", 150))
		newData := []byte(strings.Repeat("- command: new entry\n  description: the replacement content\n", 160))
		os.WriteFile(tp, oldData, 0o644)
		var cur, lim syscall.Rlimit
		syscall.Getrlimit(syscall.RLIMIT_FSIZE, &cur)
		lim = cur
		lim.Cur = k
		syscall.Setrlimit(syscall.RLIMIT_FSIZE, &lim)
		go func() {
			time.Sleep(15 * time.Millisecond)
			syscall.Setrlimit(syscall.RLIMIT_FSIZE, &cur)
		}()
		werr := utils.WriteFileAtomic(tp, newData, 0o644)
		time.Sleep(20 * time.Millisecond)
		syscall.Setrlimit(syscall.RLIMIT_FSIZE, &cur)
		b, _ := os.ReadFile(tp)
		after := "damaged"
		switch {
		case bytes.Equal(b, oldData):
			after = "old"
		case bytes.Equal(b, newData):
			after = "new"
		}
		_, lerr := database.LoadDatabase(tp)
		d.tr++
		d.w.emit(&atEv{Op: "fault", Tr: d.tr, File: "notebook", Cmd: "library", Kind: "transient-write-failure", At: fmt.Sprint(k), After: after, Loads: lerr == nil, HadOld: true,
			Success: werr == nil, Note: fmt.Sprintf("file-size limit of %d bytes lifted 15 ms into the write; WriteFileAtomic returned %v; %d bytes on disk (old %d, new %d)", k, werr, len(b), len(oldData), len(newData))})
	}
	// 5. one history object saving several times (a long-running caller): a save that fails - the file-size limit is lowered
	// for that one call - must leave nothing behind that spoils the next, successful save
	for _, k := range []uint64{0, 1, 40, 300} {
		hp := filepath.Join(tmpDir(), fmt.Sprintf("hist-resave-%d", k), "search_history.json")
		os.MkdirAll(filepath.Dir(hp), 0o755)
		h := history.NewSearchHistory(hp, 100)
		for i := 0; i < 4; i++ {
			h.AddEntry(fmt.Sprintf("old query %d", i), i, "ctx", 0)
		}
		ok1 := h.Save() == nil
		var lim, cur syscall.Rlimit
		syscall.Getrlimit(syscall.RLIMIT_FSIZE, &cur)
		lim = cur
		lim.Cur = k
		h.AddEntry("query during the failing save", 1, "ctx", 0)
		syscall.Setrlimit(syscall.RLIMIT_FSIZE, &lim)
		failed := h.Save() != nil
		syscall.Setrlimit(syscall.RLIMIT_FSIZE, &cur)
		h.AddEntry("query after it", 2, "ctx", 0)
		ok3 := h.Save() == nil
		b, _ := os.ReadFile(hp)
		qs, parsed := histQueries(b)
		want := []string{}
		for _, e := range h.Entries {
			want = append(want, e.Query)
		}
		h2 := history.NewSearchHistory(hp, 100)
		loads := h2.Load() == nil && parsed
		after := "damaged"
		if loads && strings.Join(qs, "\x00") == strings.Join(want, "\x00") {
			after = "new"
		}
		d.tr++
		d.w.emit(&atEv{Op: "fault", Tr: d.tr, File: "history", Cmd: "library", Kind: "save-after-failed-save", At: fmt.Sprint(k), After: after, Loads: loads, HadOld: true,
			Success: ok3, Note: fmt.Sprintf("first save ok=%v, save under a %d-byte file-size limit failed=%v, third save ok=%v", ok1, k, failed, ok3)})
	}
	d.w.close()
	fmt.Printf("{\"scenarios\": %d, \"events\": %d}\n", len(scenarios), d.w.n)
	return 0
}
