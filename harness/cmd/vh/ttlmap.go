package main

import (
	"flag"
	"fmt"
	"sort"
	"strconv"
	"sync"
	"sync/atomic"
	"time"

	"github.com/Vedant9500/WTF/internal/cache"
)

func init() { commands["ttlmap-run"] = ttlmapRun }

type tmEv struct {
	Kind  string `json:"kind"`
	T     int    `json:"t"`
	Op    string `json:"op"`
	K     int    `json:"k"`
	V     int    `json:"v"`
	N     int    `json:"n"`
	Found bool   `json:"found"`
	RV    int    `json:"rv"`
	Panic bool   `json:"panic"`
	TTL   int    `json:"ttl"`
	Auto  bool   `json:"auto"`
	Tr    int    `json:"tr"`
	stamp int64
}

// ttlmapRun: histories on the real cache.Cache - one goroutine (sequential, long) or several (concurrent, short), with and
// without the background cleaner (interval 200 microseconds), logical clock through the VerifAdvance hook, Stop called once or twice
func ttlmapRun(args []string) int {
	fs := flag.NewFlagSet("ttlmap-run", flag.ExitOnError)
	out := fs.String("out", "", "trace")
	nh := fs.Int("histories", 200, "histories")
	fs.Parse(args)
	r := seededRand(21)
	w := newTraceWriter(*out)
	unit := time.Hour
	for h := 1; h <= *nh; h++ {
		ttl := 1 + r.Intn(2)
		auto := r.Intn(2) == 0
		real := time.Duration(ttl)*unit + unit/2
		var c *cache.Cache
		if auto {
			c = cache.NewCacheWithAutoCleanup(real, 200*time.Microsecond)
		} else {
			c = cache.NewCache(real)
		}
		g, k := 1, 10+r.Intn(20)
		if h%2 == 0 {
			g, k = 2+r.Intn(2), 2+r.Intn(3)
		}
		type planned struct {
			op      string
			k, v, n int
		}
		plans := make([][]planned, g)
		val := 0
		for t := 0; t < g; t++ {
			for j := 0; j < k; j++ {
				val++
				ops := []string{"get", "get", "set", "set", "delete", "size", "tick", "cleanup", "clear", "stop"}
				op := ops[r.Intn(len(ops))]
				if op == "stop" && r.Intn(3) != 0 {
					op = "get"
				}
				plans[t] = append(plans[t], planned{op, 1 + r.Intn(3), h*1000 + val, 1 + r.Intn(2)})
			}
		}
		var ctr int64
		var mu sync.Mutex
		var evs []tmEv
		var wg sync.WaitGroup
		start := make(chan struct{})
		for t := 0; t < g; t++ {
			wg.Add(1)
			go func(t int) {
				defer wg.Done()
				<-start
				var local []tmEv
				for _, p := range plans[t] {
					ce := tmEv{Kind: "call", T: t + 1, Op: p.op, K: p.k, V: p.v, N: p.n, Tr: h}
					re := tmEv{Kind: "ret", T: t + 1, Op: p.op, K: p.k, V: p.v, Tr: h}
					key := strconv.Itoa(p.k)
					ce.stamp = atomic.AddInt64(&ctr, 1)
					func() {
						defer func() {
							if rec := recover(); rec != nil {
								re.Panic = true
							}
						}()
						switch p.op {
						case "get":
							v, ok := c.Get(key)
							re.Found = ok
							if ok {
								re.RV = v.(int)
							}
						case "set":
							c.Set(key, p.v)
						case "delete":
							c.Delete(key)
						case "clear":
							c.Clear()
						case "cleanup":
							c.Cleanup()
						case "size":
							re.N = c.Size()
						case "tick":
							c.VerifAdvance(time.Duration(p.n) * unit)
						case "stop":
							c.Stop()
						}
					}()
					re.stamp = atomic.AddInt64(&ctr, 1)
					local = append(local, ce, re)
				}
				mu.Lock()
				evs = append(evs, local...)
				mu.Unlock()
			}(t)
		}
		close(start)
		wg.Wait()
		func() { defer func() { recover() }(); c.Stop() }()
		sort.Slice(evs, func(i, j int) bool { return evs[i].stamp < evs[j].stamp })
		w.emit(&tmEv{Kind: "new", TTL: ttl, Auto: auto, Tr: h})
		for i := range evs {
			w.emit(&evs[i])
		}
	}
	w.close()
	fmt.Printf("{\"histories\": %d, \"events\": %d}\n", *nh, w.n)
	return 0
}
