package main

import (
	"encoding/hex"
	"encoding/json"
	"flag"
	"fmt"
	"os"
	"path/filepath"
	"sort"
	"strings"
	"time"
	"unicode/utf8"

	"github.com/Vedant9500/WTF/internal/history"
)

func init() {
	commands["hist-info"] = histInfo
	commands["hist-tours"] = histTours
	commands["hist-random"] = histRandom
}

type histEv struct {
	Op      string  `json:"op"`
	Q       int     `json:"q"`
	ID      int     `json:"id"`
	N       int     `json:"n"`
	OK      bool    `json:"ok"`
	Panic   bool    `json:"panic"`
	MaxReq  int     `json:"maxreq"`
	Ents    [][]int `json:"ents"`
	Max     int     `json:"max"`
	Ranks   []int   `json:"ranks"`
	Res     [][]int `json:"-"`
	ResQ    []int   `json:"-"`
	ResAny  any     `json:"res"`
	Fresh   bool    `json:"fresh"`
	MQ      []int   `json:"mq"` // pattern: ids of the known queries that contain the pattern
	Total   int     `json:"total"`
	Unique  int     `json:"unique"`
	FCls    string  `json:"fcls"`
	FMax    int     `json:"fmax"`
	FEnts   [][]int `json:"fents"`
	BadUTF8 bool    `json:"bad_utf8"`
	Tr      int     `json:"tr"`
	Note    string  `json:"note,omitempty"`
}

type histDriver struct {
	w       *traceWriter
	dir     string
	path    string
	h       *history.SearchHistory
	qids    map[string]int
	eids    map[string]int
	tr      int
	bad     bool
	maxReq  int
	tsMode  int
	foreign map[int]bool
	dead    bool
}

func newHistDriver(out string) *histDriver {
	dir, err := os.MkdirTemp("", "vh-hist")
	if err != nil {
		fatal("tmpdir: %v", err)
	}
	return &histDriver{w: newTraceWriter(out), dir: dir, qids: map[string]int{}, eids: map[string]int{}, foreign: map[int]bool{}}
}

func (d *histDriver) qid(q string) int {
	k := hex.EncodeToString([]byte(q))
	if id, ok := d.qids[k]; ok {
		return id
	}
	id := len(d.qids) + 1
	d.qids[k] = id
	return id
}

func (d *histDriver) eid(e history.SearchEntry) int {
	k := fmt.Sprintf("%x|%d|%d|%x|%d", []byte(e.Query), e.Timestamp.UnixNano(), e.ResultsCount, []byte(e.Context), e.Duration)
	if id, ok := d.eids[k]; ok {
		return id
	}
	id := len(d.eids) + 100
	d.eids[k] = id
	return id
}

func (d *histDriver) pairs(es []history.SearchEntry) [][]int {
	out := make([][]int, 0, len(es))
	for _, e := range es {
		out = append(out, []int{d.qid(e.Query), d.eid(e)})
	}
	return out
}

func (d *histDriver) emit(ev *histEv) {
	ev.Ents = d.pairs(d.h.Entries)
	ev.Max = clamp32(d.h.MaxSize)
	// dense ranks of the time stamps
	// (entries of a foreign file carry whatever times its author wrote: only the program's own stamps are judged)
	ts := make([]int64, 0, len(d.h.Entries))
	for _, e := range d.h.Entries {
		if d.foreign[d.eid(e)] {
			continue
		}
		ts = append(ts, e.Timestamp.UnixNano())
	}
	sorted := append([]int64{}, ts...)
	sort.Slice(sorted, func(i, j int) bool { return sorted[i] < sorted[j] })
	ev.Ranks = make([]int, len(ts))
	for i, t := range ts {
		ev.Ranks[i] = sort.Search(len(sorted), func(k int) bool { return sorted[k] >= t })
	}
	if ev.FEnts == nil {
		ev.FEnts = [][]int{}
	}
	if ev.MQ == nil {
		ev.MQ = []int{}
	}
	if ev.ResAny == nil {
		ev.ResAny = []int{}
	}
	ev.BadUTF8 = d.bad
	ev.Tr = d.tr
	ev.MaxReq = d.maxReq
	d.w.emit(ev)
}

func (d *histDriver) newTrace() {
	d.tr++
	d.bad = false
	d.dead = false
	d.path = filepath.Join(d.dir, fmt.Sprintf("t%d", d.tr), "search_history.json")
}

func (d *histDriver) opNew(maxReq int) {
	d.maxReq = maxReq
	d.h = history.NewSearchHistory(d.path, maxReq)
	d.emit(&histEv{Op: "new", OK: true})
}

type fileEntry struct {
	Query        string  `json:"query"`
	Timestamp    *string `json:"timestamp,omitempty"`
	ResultsCount int     `json:"results_count"`
	Context      string  `json:"context,omitempty"`
	Duration     int64   `json:"duration,omitempty"`
}

// setFile plays the environment: somebody else writes the on-disk file.
func (d *histDriver) setFile(cls string, fmax int, queries []string, raw []byte) {
	os.MkdirAll(filepath.Dir(d.path), 0o755)
	ev := &histEv{Op: "setfile", FCls: cls, FMax: 0, OK: true}
	switch cls {
	case "missing":
		os.Remove(d.path)
	case "empty":
		os.WriteFile(d.path, nil, 0o644)
	case "garbage":
		os.WriteFile(d.path, raw, 0o644)
	case "valid":
		base := time.Date(2020, 1, 2, 3, 4, 5, 0, time.UTC)
		fes := make([]fileEntry, 0, len(queries))
		for i, q := range queries {
			// a foreign file need not carry increasing times: clocks are set back, files are merged or edited by hand
			var ts time.Time
			switch d.tsMode % 5 {
			case 0:
				ts = base.Add(time.Duration(i) * time.Minute)
			case 1:
				ts = base
			case 2:
				ts = base.Add(-time.Duration(i) * time.Minute)
			case 3: // no timestamp at all
			default:
				ts = base.Add(time.Duration((i*7)%3) * time.Minute)
			}
			fe := fileEntry{Query: q, ResultsCount: i % 3, Context: "ctx", Duration: int64(i + 1)}
			if !ts.IsZero() {
				str := ts.Format(time.RFC3339Nano)
				fe.Timestamp = &str
			}
			fes = append(fes, fe)
			id := d.eid(history.SearchEntry{Query: q, Timestamp: ts, ResultsCount: fe.ResultsCount, Context: fe.Context, Duration: fe.Duration})
			ev.FEnts = append(ev.FEnts, []int{d.qid(q), id})
			if d.tsMode%5 != 0 {
				d.foreign[id] = true
			}
			if !utf8.ValidString(q) {
				d.bad = true
			}
		}
		b, _ := json.Marshal(map[string]interface{}{"entries": fes, "max_size": fmax})
		os.WriteFile(d.path, b, 0o644)
		ev.FMax = clamp32(fmax) // (TLC integers are 32 bits wide: a monotone clamp)
	}
	d.emit(ev)
}

func (d *histDriver) add(q string) {
	if d.dead {
		return
	}
	if !utf8.ValidString(q) {
		d.bad = true
	}
	ev := &histEv{Op: "add", Q: d.qid(q), OK: true}
	func() {
		defer func() {
			if r := recover(); r != nil {
				ev.Panic = true
				ev.Note = fmt.Sprint(r)
			}
		}()
		t0 := time.Now()
		d.h.AddEntry(q, len(q)%7, "ctx"+fmt.Sprint(len(q)%2), time.Duration(len(q))*time.Millisecond)
		if n := len(d.h.Entries); n > 0 {
			ev.Fresh = !d.h.Entries[n-1].Timestamp.Before(t0) // the newest entry is stamped with this search, a repeated query included
		}
	}()
	if !ev.Panic && len(d.h.Entries) > 0 {
		ev.ID = d.eid(d.h.Entries[len(d.h.Entries)-1])
	}
	d.emit(ev)
	if ev.Panic {
		d.dead = true // the rest of this trace is not meaningful
	}
}

func (d *histDriver) save() {
	if d.dead {
		return
	}
	err := d.h.Save()
	d.emit(&histEv{Op: "save", OK: err == nil})
}

func (d *histDriver) load() {
	if d.dead {
		return
	}
	ev := &histEv{Op: "load"}
	func() {
		defer func() {
			if r := recover(); r != nil {
				ev.Panic = true
				ev.Note = fmt.Sprint(r)
			}
		}()
		ev.OK = d.h.Load() == nil
	}()
	d.emit(ev)
	if ev.Panic {
		d.dead = true // recording a search would have crashed right here
	}
}

func (d *histDriver) clear() {
	if d.dead {
		return
	}
	err := d.h.Clear()
	d.emit(&histEv{Op: "clear", OK: err == nil})
}

func (d *histDriver) recent(n int) {
	if d.dead {
		return
	}
	res := []int{}
	for _, q := range d.h.GetRecentQueries(n) {
		res = append(res, d.qid(q))
	}
	d.emit(&histEv{Op: "recent", N: n, ResAny: res})
}

// pattern: the entries whose query contains the pattern (any letter case); the driver says which known queries match
func (d *histDriver) pattern(p string) {
	if d.dead {
		return
	}
	res := d.pairs(d.h.GetEntriesByPattern(p))
	mq := []int{}
	for k, id := range d.qids {
		if b, err := hex.DecodeString(k); err == nil && strings.Contains(strings.ToLower(string(b)), strings.ToLower(p)) {
			mq = append(mq, id)
		}
	}
	sort.Ints(mq)
	d.emit(&histEv{Op: "pattern", ResAny: res, MQ: mq})
}

func (d *histDriver) top(n int) {
	if d.dead {
		return
	}
	res := [][]int{}
	for _, f := range d.h.GetTopQueries(n) {
		res = append(res, []int{d.qid(f.Query), f.Count})
	}
	d.emit(&histEv{Op: "top", N: n, ResAny: res})
}

func (d *histDriver) stats() {
	if d.dead {
		return
	}
	st := d.h.GetStats()
	d.emit(&histEv{Op: "stats", Total: st.TotalSearches, Unique: st.UniqueQueries})
}

func histInfo(args []string) int {
	fmt.Printf("{\"default_max\": %d, \"default_max_neg\": %d}\n", history.NewSearchHistory("x", 0).MaxSize, history.NewSearchHistory("x", -5).MaxSize)
	return 0
}

var histQueryByModelID = map[int]string{1: "list files", 2: "git commit", 3: "Σίσυφος ßtraße"}

type histTour struct {
	Init struct {
		Max   int     `json:"max"`
		File  string  `json:"file"`
		FMax  int     `json:"fmax"`
		FEnts [][]int `json:"fents"`
	} `json:"init"`
	Ops [][]interface{} `json:"ops"`
}

func histTours(args []string) int {
	fs := flag.NewFlagSet("hist-tours", flag.ExitOnError)
	in := fs.String("in", "", "tours")
	out := fs.String("out", "", "trace")
	fs.Parse(args)
	d := newHistDriver(*out)
	defer os.RemoveAll(d.dir)
	n := 0
	garbage := []byte("{\"entries\": [{\"query\": 5}], \"max_size\": \"x\"")
	readJSONLines(*in, func(raw []byte) {
		var t histTour
		if err := json.Unmarshal(raw, &t); err != nil {
			fatal("bad tour: %v", err)
		}
		d.newTrace()
		d.opNew(t.Init.Max)
		qs := []string{}
		for _, p := range t.Init.FEnts {
			qs = append(qs, histQueryByModelID[p[0]])
		}
		d.tsMode = d.tr
		d.setFile(t.Init.File, t.Init.FMax, qs, garbage)
		for _, o := range t.Ops {
			switch o[0].(string) {
			case "add":
				d.add(histQueryByModelID[num(o[1])])
			case "save":
				d.save()
			case "load":
				d.load()
			case "clear":
				d.clear()
			case "setfile":
				d.setFile(o[1].(string), 0, nil, garbage)
			}
		}
		// views at the end of every tour
		d.recent(2)
		d.top(5)
		d.stats()
		n++
	})
	d.w.close()
	fmt.Printf("{\"tours\": %d, \"events\": %d}\n", n, d.w.n)
	return 0
}

func histRandom(args []string) int {
	fs := flag.NewFlagSet("hist-random", flag.ExitOnError)
	out := fs.String("out", "", "trace")
	ntr := fs.Int("traces", 200, "traces")
	length := fs.Int("len", 60, "ops per trace")
	fs.Parse(args)
	r := seededRand(16)
	d := newHistDriver(*out)
	defer os.RemoveAll(d.dir)
	pool := []string{"list files", "git commit", "compress directory", "Σίσυφος", "a", "", "tab\there", "new\nline", "quote\"back\\slash",
		"emoji 🚀 rocket", "bad\xffutf8", "\xc3\x28", "null", "0", "x x x x x x x x x x x x x x x x x x x x x x x x x x x x x x x"}
	garbages := [][]byte{[]byte("{"), []byte("not json at all"), {0, 1, 2, 0xff, 0xfe}, []byte("[]"), []byte("null"), []byte("{}"), []byte("42"),
		[]byte("{\"entries\": 5}"), []byte("{\"max_size\": -3, \"entries\": 5}"), []byte("{\"max_size\": 0, \"entries\": \"x\"}"),
		[]byte("{\"entries\": [{\"query\": \"a\", \"timestamp\": \"yesterday\"}]}"), []byte("{\"entries\": null, \"max_size\": null}"),
		[]byte("{\"max_size\": 1e99}"), []byte("{\"entries\": [], \"max_size\": 3"), []byte("\xef\xbb\xbf{}")}
	for t := 0; t < *ntr; t++ {
		d.newTrace()
		maxReq := []int{1, 2, 3, 5, 8, 0, -2}[r.Intn(7)]
		nq := 2 + r.Intn(len(pool)-2)
		tpool := pool
		if r.Intn(8) != 0 { // queries that are not valid UTF-8 only in a fraction of the traces
			tpool = nil
			for _, q := range pool {
				if utf8.ValidString(q) {
					tpool = append(tpool, q)
				}
			}
			if nq > len(tpool) {
				nq = len(tpool)
			}
		}
		d.opNew(maxReq)
		d.setFile("missing", 0, nil, nil) // every trace starts on a fresh path
		ln := *length
		if maxReq < 1 && r.Intn(2) == 0 {
			ln = 130 // drive the default past its bound
		}
		for i := 0; i < ln; i++ {
			q := tpool[r.Intn(nq)]
			if maxReq < 1 && ln == 130 {
				q = fmt.Sprintf("query %d", r.Intn(400))
			}
			switch x := r.Intn(100); {
			case x < 50:
				d.add(q)
			case x < 58:
				d.save()
			case x < 66:
				d.load()
			case x < 70:
				// reopen: a fresh object on the same path
				d.opNew(maxReq)
				d.load()
			case x < 73:
				d.clear()
			case x < 79:
				d.recent(1 + r.Intn(5))
			case x < 85:
				d.top(1 + r.Intn(6))
			case x < 87:
				d.stats()
			case x < 89:
				d.pattern([]string{"", "git", "LIST", "a", "zzz", " "}[r.Intn(6)])
			default:
				switch r.Intn(5) {
				case 0:
					d.setFile("missing", 0, nil, nil)
				case 1:
					d.setFile("empty", 0, nil, nil)
				case 2:
					d.setFile("garbage", 0, nil, garbages[r.Intn(len(garbages))])
				default:
					k := r.Intn(7)
					qs := make([]string, k)
					for j := range qs {
						qs[j] = tpool[r.Intn(nq)]
					}
					d.tsMode = r.Intn(5)
					d.setFile("valid", []int{-3, 0, 1, 2, 5, 100, -1, 1 << 40, 1<<62 + 5, 1<<63 - 2}[r.Intn(10)], qs, nil)
				}
			}
		}
	}
	// a history file of well over a megabyte (a few entries with very long queries), loaded, extended, saved and loaded again
	{
		d.newTrace()
		big1, big2 := strings.Repeat("w ", 300000), strings.Repeat("kk ", 250000)
		d.opNew(5)
		d.setFile("missing", 0, nil, nil)
		d.tsMode = 0
		d.setFile("valid", 5, []string{big1, "list files", big2}, nil)
		d.load()
		d.stats()
		d.add("after the big ones")
		d.save()
		d.opNew(5)
		d.load()
		d.recent(3)
		d.add(big1[:900])
		d.save()
		d.opNew(5)
		d.load()
		d.stats()
	}
	d.w.close()
	fmt.Printf("{\"traces\": %d, \"events\": %d}\n", *ntr, d.w.n)
	return 0
}
