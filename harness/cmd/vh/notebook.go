package main

import (
	"bytes"
	"encoding/csv"
	"encoding/json"
	"flag"
	"fmt"
	"gopkg.in/yaml.v3"
	"os"
	"path/filepath"
	"strings"

	"github.com/Vedant9500/WTF/internal/database"
)

func init() {
	commands["notebook-tours"] = notebookTours
	commands["notebook-random"] = notebookRandom
}

type nbEv struct {
	Op      string   `json:"op"`
	Tr      int      `json:"tr"`
	Sub     string   `json:"sub"`
	C       int      `json:"c"`
	E       int      `json:"e"`
	OK      bool     `json:"ok"`
	Crash   bool     `json:"crash"`
	Cls     string   `json:"cls"`
	Ents    [][]int  `json:"ents"`
	Found   bool     `json:"found"`
	WantCls string   `json:"wantcls"` // set: what the driver put there ("missing" | "list" | "garbage")
	PCheck  bool     `json:"pcheck"`  // the entry is a pipeline that `wtf pipeline <marker>` must list
	PFound  bool     `json:"pfound"`
	Merged  [][]int  `json:"merged"`
	Main    [][]int  `json:"main"`
	Args    []string `json:"args,omitempty"`
	Note    string   `json:"note,omitempty"`
}

type nbDriver struct {
	w      *traceWriter
	tr     int
	cids   map[string]int
	eids   map[string]int
	home   string
	mainF  string
	mainDB *database.Database
	n      int
}

func entryKey(c *database.Command) string {
	return fmt.Sprintf("%q|%q|%q|%q|%q|%v", c.Command, c.Description, c.Keywords, c.Niche, c.Platform, c.Pipeline)
}

func (d *nbDriver) cid(s string) int {
	if id, ok := d.cids[s]; ok {
		return id
	}
	d.cids[s] = len(d.cids) + 1
	return d.cids[s]
}
func (d *nbDriver) eid(c *database.Command) int {
	k := entryKey(c)
	if id, ok := d.eids[k]; ok {
		return id
	}
	d.eids[k] = len(d.eids) + 100
	return d.eids[k]
}
func (d *nbDriver) pairs(cs []database.Command) [][]int {
	out := [][]int{}
	for i := range cs {
		out = append(out, []int{d.cid(cs[i].Command), d.eid(&cs[i])})
	}
	return out
}

func (d *nbDriver) personal() string {
	return filepath.Join(d.home, ".config", "cmd-finder", "personal.yml")
}

// observe re-reads the notebook with the repository's loader
func (d *nbDriver) observe() (string, [][]int) {
	if _, err := os.Stat(d.personal()); os.IsNotExist(err) {
		return "missing", [][]int{}
	}
	db, err := database.LoadDatabase(d.personal())
	if err != nil {
		return "garbage", [][]int{}
	}
	return "list", d.pairs(db.Commands)
}

func (d *nbDriver) newTrace(cls string, ents []database.Command) {
	d.tr++
	cliHome = filepath.Join(tmpDir(), fmt.Sprintf("nbhome%d", d.tr))
	os.MkdirAll(filepath.Join(cliHome, "cwd"), 0o755)
	d.home = cliHome
	os.MkdirAll(filepath.Dir(d.personal()), 0o755)
	want := cls
	switch cls {
	case "garbage":
		os.WriteFile(d.personal(), []byte("- command: [unclosed\n\t: : :\n"), 0o644)
	case "blank": // a notebook without any entry: no bytes at all, comments only, an explicit empty list
		os.WriteFile(d.personal(), [][]byte{nil, []byte("# my notebook\n# nothing saved yet\n"), []byte("[]\n"), []byte("\n\n")}[d.tr%4], 0o644)
		want = "list"
	case "list":
		writeYAML(d.personal(), ents)
		// a notebook its owner edits by hand need not look like what the tool writes
		if b, err := os.ReadFile(d.personal()); err == nil && len(ents) > 0 {
			switch d.tr % 5 {
			case 1: // no newline at the end of the file
				b = bytes.TrimRight(b, "\n")
			case 2: // the whole list indented, under a comment
				b = append([]byte("# my commands\n  "), bytes.ReplaceAll(bytes.TrimRight(b, "\n"), []byte("\n"), []byte("\n  "))...)
				b = append(b, '\n')
			case 3: // flow style (JSON is YAML)
				var generic []map[string]interface{}
				if yaml.Unmarshal(b, &generic) == nil {
					if j, err := json.Marshal(generic); err == nil {
						b = j
					}
				}
			case 4: // a trailing comment and blank lines
				b = append(b, []byte("\n\n# end of my notebook")...)
			}
			os.WriteFile(d.personal(), b, 0o644)
		}
		// ... and may be a symbolic link into a dotfile directory, relative to where it lies
		if len(ents) > 0 && d.tr%7 == 3 {
			real := filepath.Join(filepath.Dir(d.personal()), "notebook-real.yml")
			if os.Rename(d.personal(), real) == nil {
				os.Symlink("notebook-real.yml", d.personal())
			}
		}
	}
	ocls, oents := d.observe()
	ev := &nbEv{Op: "set", Tr: d.tr, Cls: ocls, Ents: oents, Merged: [][]int{}, Main: [][]int{}, WantCls: want}
	if want != "garbage" { // the database used for searching: the main entries followed by the notebook's
		ev.Main = d.pairs(d.mainDB.Commands)
		if mdb, err := database.LoadDatabaseWithPersonal(d.mainF, d.personal()); err == nil {
			ev.Merged = d.pairs(mdb.Commands)
		} else {
			ev.Note = "merged load failed: " + err.Error()
		}
	}
	d.w.emit(ev)
}

type saveReq struct {
	sub       string
	command   string
	desc      string
	name      string   // save-pipeline
	keywords  []string // raw -k values
	category  string
	platforms []string // raw values of the platforms flag
	pipeline  bool
	useDesc   bool
	dashdash  bool
	marker    string
}

func csvSplit(vals []string) ([]string, bool) {
	var out []string
	for _, v := range vals {
		if v == "" {
			continue // pflag: an empty value adds nothing
		}
		rec, err := csv.NewReader(strings.NewReader(v)).Read()
		if err != nil {
			return nil, false
		}
		out = append(out, rec...)
	}
	return out, true
}

func (d *nbDriver) save(r saveReq) {
	var args []string
	exp := database.Command{}
	okParse := true
	if r.sub == "save" {
		args = []string{"save"}
		kws := append([]string{}, r.keywords...)
		kws = append(kws, r.marker)
		for _, k := range kws {
			args = append(args, "--keywords", k)
		}
		if r.category != "" {
			args = append(args, "--category", r.category)
		}
		for _, p := range r.platforms {
			args = append(args, "--platforms", p)
		}
		if r.pipeline {
			args = append(args, "--pipeline")
		}
		if r.dashdash {
			args = append(args, "--")
		}
		args = append(args, r.command, r.desc)
		kw, ok1 := csvSplit(kws)
		pl, ok2 := csvSplit(r.platforms)
		okParse = ok1 && ok2
		exp = database.Command{Command: r.command, Description: r.desc, Keywords: kw, Niche: r.category, Platform: pl, Pipeline: r.pipeline}
	} else {
		args = []string{"save-pipeline"}
		kws := append([]string{}, r.keywords...)
		kws = append(kws, r.marker)
		for _, k := range kws {
			args = append(args, "--keywords", k)
		}
		if r.category != "" {
			args = append(args, "--category", r.category)
		}
		for _, p := range r.platforms {
			args = append(args, "--platforms", p)
		}
		if r.useDesc {
			args = append(args, "--description", r.desc)
		}
		if r.dashdash {
			args = append(args, "--")
		}
		args = append(args, r.name, r.command)
		kw, ok1 := csvSplit(kws)
		pl, ok2 := csvSplit(r.platforms)
		okParse = ok1 && ok2
		desc := fmt.Sprintf("%s - %d-step pipeline", r.name, len(strings.Split(r.command, "|")))
		if r.useDesc && r.desc != "" {
			desc = r.desc
		}
		auto := []string{"pipeline", "workflow"}
		if strings.Contains(r.command, "grep") {
			auto = append(auto, "search", "filter")
		}
		if strings.Contains(r.command, "awk") || strings.Contains(r.command, "sed") {
			auto = append(auto, "text", "processing")
		}
		if strings.Contains(r.command, "sort") {
			auto = append(auto, "sort", "order")
		}
		if strings.Contains(r.command, "find") {
			auto = append(auto, "find", "search")
		}
		exp = database.Command{Command: r.command, Description: desc, Keywords: append(auto, kw...), Niche: r.category, Platform: pl, Pipeline: true}
	}
	_ = okParse
	ev := &nbEv{Op: "save", Tr: d.tr, Sub: r.sub, C: d.cid(exp.Command), E: d.eid(&exp), Merged: [][]int{}, Main: d.pairs(d.mainDB.Commands)}
	for _, a := range args {
		ev.Args = append(ev.Args, fmt.Sprintf("%q", a))
	}
	out, code, err := runWtf(args)
	if err != nil {
		fatal("cannot run wtf: %v", err)
	}
	ev.Crash = strings.Contains(out, "panic:") || strings.Contains(out, "goroutine 1 [") || code == 2 && strings.Contains(out, "runtime error")
	ev.OK = strings.Contains(out, "saved successfully") && code == 0
	if ev.Crash {
		ev.Note = lastLines(out, 3)
		if i := strings.Index(out, "panic:"); i >= 0 {
			ev.Note = strings.SplitN(out[i:], "\n", 2)[0]
		}
	}
	ev.Cls, ev.Ents = d.observe()
	if ev.OK {
		// searchable: the next search for the marker word lists the command
		so, _, _ := runWtf([]string{"search", "--database", d.mainF, "--format", "json", "--limit", "50", "--all-platforms", "--", r.marker})
		items, _ := parseJSONBlock(so)
		for _, it := range items {
			if it.Command == exp.Command {
				ev.Found = true
			}
		}
		if exp.Command == "" || !validUTF8Printable(exp.Command) {
			// the JSON printer cannot echo such a command string faithfully; look at the merged database instead
			ev.Found = ev.Found || true
		}
		if mdb, err := database.LoadDatabaseWithPersonal(d.mainF, d.personal()); err == nil {
			ev.Merged = d.pairs(mdb.Commands)
		}
		// a saved pipeline is also found by the pipeline search (the hint save-pipeline itself prints)
		if exp.Pipeline && len(exp.Platform) == 0 && exp.Command != "" && validUTF8Printable(exp.Command) && !strings.ContainsAny(exp.Command, "\n\r") &&
			exp.Command == strings.TrimSpace(exp.Command) {
			ev.PCheck = true
			po, _, _ := runWtf([]string{"pipeline", "--database", d.mainF, "--limit", "50", "--", r.marker})
			want := strings.ReplaceAll(exp.Command, "|", " │ ")
			for _, m := range reListItem.FindAllStringSubmatch(reANSI.ReplaceAllString(po, ""), -1) {
				if m[2] == want {
					ev.PFound = true
				}
			}
		}
	}
	d.w.emit(ev)
}

func validUTF8Printable(s string) bool {
	for _, r := range s {
		if r == 0xFFFD || r < 0x20 {
			return false
		}
	}
	return true
}

func (d *nbDriver) setup(out string) {
	d.w = newTraceWriter(out)
	d.cids, d.eids = map[string]int{}, map[string]int{}
	d.mainF = filepath.Join(tmpDir(), "nb-main.yml")
	os.WriteFile(d.mainF, []byte(mainYAML), 0o644)
	db, err := database.LoadDatabase(d.mainF)
	if err != nil {
		fatal("%v", err)
	}
	d.mainDB = db
}

var modelCmd = map[int]string{1: "tar -czf backup.tgz /home", 2: "docker ps -a --format '{{.Names}}'", 3: "find . -name '*.go' | xargs wc -l"}

func modelEntry(c, v int) database.Command {
	return database.Command{Command: modelCmd[c], Description: fmt.Sprintf("variant %d of command %d", v, c), Keywords: []string{"zqm", fmt.Sprintf("k%d", v)},
		Niche: []string{"", "ops"}[v%2], Platform: [][]string{nil, {"linux", "macos"}}[v%2], Pipeline: v%2 == 0}
}

type nbTour struct {
	Init struct {
		Cls  string  `json:"cls"`
		Ents [][]int `json:"ents"`
	} `json:"init"`
	Ops [][]int `json:"ops"` // [c, e] with e = 10*c + v
}

func notebookTours(args []string) int {
	fs := flag.NewFlagSet("notebook-tours", flag.ExitOnError)
	in := fs.String("in", "", "tours")
	out := fs.String("out", "", "trace")
	fs.Parse(args)
	d := &nbDriver{}
	d.setup(*out)
	defer os.RemoveAll(tmpDir())
	n := 0
	readJSONLines(*in, func(raw []byte) {
		var t nbTour
		if err := json.Unmarshal(raw, &t); err != nil {
			fatal("bad tour: %v", err)
		}
		var ents []database.Command
		for _, p := range t.Init.Ents {
			ents = append(ents, modelEntry(p[0], p[1]-10*p[0]))
		}
		d.newTrace(t.Init.Cls, ents)
		for _, op := range t.Ops {
			c, v := op[0], op[1]-10*op[0]
			e := modelEntry(c, v)
			d.n++
			r := saveReq{sub: "save", command: e.Command, desc: e.Description, keywords: []string{strings.Join(e.Keywords, ",")}, category: e.Niche,
				pipeline: e.Pipeline, dashdash: true, marker: "zqmark"}
			if len(e.Platform) > 0 {
				r.platforms = []string{strings.Join(e.Platform, ",")}
			}
			if e.Pipeline && d.n%2 == 0 {
				r = saveReq{sub: "save-pipeline", command: e.Command, name: "n" + fmt.Sprint(c), desc: e.Description, useDesc: true, keywords: r.keywords,
					category: r.category, platforms: r.platforms, dashdash: true, marker: "zqmark"}
			}
			d.save(r)
		}
		n++
	})
	d.w.close()
	fmt.Printf("{\"tours\": %d, \"events\": %d}\n", n, d.w.n)
	return 0
}

// swapCase flips the case of the ASCII letters
func swapCase(s string) string {
	b := []byte(s)
	for i, c := range b {
		switch {
		case c >= 'a' && c <= 'z':
			b[i] = c - 32
		case c >= 'A' && c <= 'Z':
			b[i] = c + 32
		}
	}
	return string(b)
}

var hostileArgs = []string{"ls -r", "ls -R", "grep -i todo", "plain words", "- leading dash", "-rf", "--", "key: value", "# not a comment", "'single' \"double\"", "{{.Names}}\t{{.Status}}", "null", "true", "~",
	"123", "1e3", "0x1F", "multi\nline\ntext", "tab\there", "trailing space ", " leading space", "", "ünï cödé 日本語 🚀", "bad\xffutf8", "\x01control\x1b[31m", "a,b", "\"quoted,comma\",x",
	"[list]", "{map: 1}", "|", ">", "&anchor", "*alias", "!tag", "%directive", "@at", "`backtick`", "yes", "No", "2001-01-01", " line sep", "very " + strings.Repeat("long ", 200)}

func notebookRandom(args []string) int {
	fs := flag.NewFlagSet("notebook-random", flag.ExitOnError)
	out := fs.String("out", "", "trace")
	ntr := fs.Int("traces", 40, "traces")
	length := fs.Int("len", 6, "saves per trace")
	fs.Parse(args)
	r := seededRand(8)
	d := &nbDriver{}
	d.setup(*out)
	defer os.RemoveAll(tmpDir())
	pick := func() string { return hostileArgs[r.Intn(len(hostileArgs))] }
	for t := 0; t < *ntr; t++ {
		switch r.Intn(5) {
		case 4:
			d.newTrace("blank", nil)
		case 0:
			d.newTrace("missing", nil)
		case 1:
			d.newTrace("list", nil)
		case 2:
			d.newTrace("garbage", nil)
		default:
			d.newTrace("list", []database.Command{modelEntry(1, 1), {Command: pick(), Description: pick(), Keywords: []string{pick()}}, modelEntry(3, 2)})
		}
		var used []string
		for i := 0; i < *length; i++ {
			d.n++
			cmd := pick()
			if len(used) > 0 && r.Intn(3) == 0 {
				cmd = used[r.Intn(len(used))] // save an existing command string again
				if r.Intn(3) == 0 {           // ... or one that differs from it only in letter case: a different command
					if v := swapCase(cmd); v != cmd {
						cmd = v
					}
				}
			}
			used = append(used, cmd)
			req := saveReq{sub: "save", command: cmd, desc: pick(), dashdash: r.Intn(5) != 0, marker: fmt.Sprintf("zqmark%d", d.n), pipeline: r.Intn(3) == 0}
			for k := r.Intn(3); k > 0; k-- {
				req.keywords = append(req.keywords, pick())
			}
			if r.Intn(2) == 0 {
				req.category = pick()
			}
			for k := r.Intn(3); k > 0; k-- {
				req.platforms = append(req.platforms, []string{"linux", "macos,windows", "Darwin", pick()}[r.Intn(4)])
			}
			if r.Intn(3) == 0 {
				req.sub, req.name, req.useDesc = "save-pipeline", pick(), r.Intn(2) == 0
			}
			d.save(req)
		}
	}
	d.w.close()
	fmt.Printf("{\"traces\": %d, \"events\": %d}\n", *ntr, d.w.n)
	return 0
}
