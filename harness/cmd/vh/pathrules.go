package main

import (
	"flag"
	"fmt"
	"strings"
	"unicode/utf8"

	"github.com/Vedant9500/WTF/internal/validation"
)

func init() { commands["path-random"] = pathRandom }

type prEv struct {
	Op  string   `json:"op"`
	Tr  int      `json:"tr"`
	Inp [][2]int `json:"inp"`
	Out [][2]int `json:"out"`
	Why string   `json:"why"`
	// direct observations of the as-built deviations (PathRules.tla: NameTrimmed, NameWhole, NameIdem)
	Untrimmed bool   `json:"untrimmed"`
	Split     bool   `json:"split"`
	NotIdem   bool   `json:"notidem"`
	Text      string `json:"text,omitempty"`
}

const prReserved = ":*?\"<>|"

// classes of PathRules.tla
func prClassify(s string) []int {
	var out []int
	for i := 0; i < len(s); {
		r, n := utf8.DecodeRuneInString(s[i:])
		c := 1
		switch {
		case r == utf8.RuneError && n <= 1:
			c = 9
		case n == 2:
			c = 8
		case n > 2:
			fatal("path-random: unexpected %d-byte character in %q", n, s)
		case r == '.':
			c = 2
		case r == '/':
			c = 3
		case r == '\\':
			c = 4
		case strings.ContainsRune(prReserved, r):
			c = 5
		case r == ' ':
			c = 6
		case r == 0:
			c = 7
		case r == '_':
			c = 10
		}
		out = append(out, c)
		i += n
	}
	return out
}

func prRLE(cs []int) [][2]int {
	out := [][2]int{}
	for _, c := range cs {
		if n := len(out); n > 0 && out[n-1][0] == c {
			out[n-1][1]++
		} else {
			out = append(out, [2]int{c, 1})
		}
	}
	return out
}

func pathRandom(args []string) int {
	fs := flag.NewFlagSet("path-random", flag.ExitOnError)
	out := fs.String("out", "", "trace")
	n := fs.Int("n", 600, "texts")
	fs.Parse(args)
	r := seededRand(505)
	w := newTraceWriter(*out)
	concrete := func(c int) string {
		switch c {
		case 1:
			return string("abcxyzABC019-~,'\t"[r.Intn(17)])
		case 2:
			return "."
		case 3:
			return "/"
		case 4:
			return "\\"
		case 5:
			return string(prReserved[r.Intn(len(prReserved))])
		case 6:
			return " "
		case 7:
			return "\x00"
		case 8:
			return []string{"é", "ß", "я", "¿"}[r.Intn(4)]
		case 9:
			return "\xc3"
		}
		return "_"
	}
	weights := []int{1, 1, 1, 2, 2, 2, 3, 4, 5, 6, 6, 7, 8, 8, 9, 10}
	for i := 1; i <= *n; i++ {
		var b strings.Builder
		// short texts; texts that end within a few bytes of a cap (255 for names, 4096 for paths), the boundary crowded
		// with dots, spaces and two-byte characters
		switch r.Intn(5) {
		case 0, 1:
			for k := r.Intn(9); k > 0; k-- {
				b.WriteString(concrete(weights[r.Intn(len(weights))]))
			}
		default:
			limit := []int{255, 4096}[r.Intn(2)]
			fill := limit - 6 + r.Intn(5)
			filler := concrete([]int{1, 1, 1, 8, 6, 2}[r.Intn(6)])
			if r.Intn(3) == 0 {
				b.WriteString(concrete(weights[r.Intn(len(weights))]))
			}
			for b.Len() < fill {
				b.WriteString(filler)
			}
			for k := r.Intn(12); k > 0; k-- {
				b.WriteString(concrete([]int{1, 2, 2, 6, 6, 8, 8, 8, 5, 3, 7, 10}[r.Intn(12)]))
			}
		}
		in := b.String()
		inp := prRLE(prClassify(in))
		why := ""
		if err := validation.ValidatePath(in); err != nil {
			msg := err.Error()
			switch {
			case strings.Contains(msg, "empty"):
				why = "empty"
			case strings.Contains(msg, "traversal"):
				why = "traversal"
			case strings.Contains(msg, "null"):
				why = "nul"
			case strings.Contains(msg, "too long"):
				why = "long"
			default:
				why = "other: " + msg
			}
		}
		w.emit(&prEv{Op: "vpath", Tr: i, Inp: inp, Out: [][2]int{}, Why: why})
		sp := validation.SanitizePath(in)
		w.emit(&prEv{Op: "spath", Tr: i, Inp: inp, Out: prRLE(prClassify(sp))})
		sn := validation.SanitizeFilename(in)
		e := &prEv{Op: "sname", Tr: i, Inp: inp, Out: prRLE(prClassify(sn))}
		e.Untrimmed = sn != "" && strings.Trim(sn, " .") != sn
		e.Split = utf8.ValidString(in) && !utf8.ValidString(sn)
		e.NotIdem = validation.SanitizeFilename(sn) != sn
		if (e.Untrimmed || e.Split || e.NotIdem) && len(in) < 400 {
			e.Text = fmt.Sprintf("%q", in)
		}
		w.emit(e)
	}
	w.close()
	fmt.Printf("{\"traces\": %d, \"events\": %d}\n", *n, w.n)
	return 0
}
