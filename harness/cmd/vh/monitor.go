package main

import (
	"flag"
	"fmt"
	"math"
	"time"

	"github.com/Vedant9500/WTF/internal/metrics"
)

func init() { commands["monitor-random"] = monitorRandom }

type monEv struct {
	Op         string `json:"op"`
	Tr         int    `json:"tr"`
	B          bool   `json:"b"`
	IsEnabled  bool   `json:"isenabled"`
	Hit        bool   `json:"hit"`
	Ms         int    `json:"ms"`
	NRes       int    `json:"nres"`
	Hits       int    `json:"hits"`
	Misses     int    `json:"misses"`
	Results    int    `json:"results"`
	Ratio      int64  `json:"ratio"`     // millionths
	Avg        int64  `json:"avg"`       // thousandths of a millisecond
	RateTotal  int64  `json:"ratetotal"` // searches per second x uptime, rounded
	Goroutines int    `json:"goroutines"`
	MemKB      int64  `json:"memkb"`
}

// monitorRandom: the real PerformanceMonitor switched on and off between searches; after every few operations the report's
// derived figures are read back.
func monitorRandom(args []string) int {
	fs := flag.NewFlagSet("monitor-random", flag.ExitOnError)
	out := fs.String("out", "", "trace")
	ntr := fs.Int("traces", 100, "traces")
	length := fs.Int("len", 40, "operations per trace")
	fs.Parse(args)
	r := seededRand(606)
	w := newTraceWriter(*out)
	for t := 1; t <= *ntr; t++ {
		pm := metrics.NewPerformanceMonitor()
		time.Sleep(200 * time.Microsecond) // (uptime must not be zero when the first report is taken)
		emit := func(e *monEv) { e.Tr = t; w.emit(e) }
		emit(&monEv{Op: "begin"})
		bias := r.Intn(3) // 0: hits and misses, 1: hits only, 2: misses only
		for i := 0; i < *length; i++ {
			switch x := r.Intn(100); {
			case x < 15:
				b := r.Intn(2) == 0
				pm.Enable(b)
				emit(&monEv{Op: "enable", B: b, IsEnabled: pm.IsEnabled()})
			case x < 70:
				hit := r.Intn(2) == 0
				if bias == 1 {
					hit = true
				} else if bias == 2 {
					hit = false
				}
				ms, n := []int{0, 1, 2, 7, 40, 1500}[r.Intn(6)], []int{0, 1, 3, 5, 100}[r.Intn(5)]
				pm.RecordSearchOperation(time.Duration(ms)*time.Millisecond, n, hit, 1+r.Intn(30))
				emit(&monEv{Op: "search", Hit: hit, Ms: ms, NRes: n})
			default:
				rep := pm.GetPerformanceReport()
				e := &monEv{Op: "report", Ratio: int64(math.Round(rep.CacheHitRatio * 1e6)), Avg: int64(math.Round(rep.AverageSearchTime * 1e3)),
					Goroutines: rep.GoroutineCount, MemKB: int64(rep.MemoryUsageMB * 1024)}
				uptime := 0.0
				for _, m := range rep.SystemMetrics {
					if m.Name == "system_uptime" {
						uptime = m.Value
					}
				}
				e.RateTotal = int64(math.Round(rep.SearchesPerSecond * uptime))
				for _, m := range rep.ApplicationMetrics {
					switch m.Name {
					case "cache_hits_total":
						e.Hits += int(m.Value)
					case "cache_misses_total":
						e.Misses += int(m.Value)
					case "search_results":
						e.Results = int(m.Value)
					}
				}
				emit(e)
			}
		}
	}
	w.close()
	fmt.Printf("{\"traces\": %d, \"events\": %d}\n", *ntr, w.n)
	return 0
}
