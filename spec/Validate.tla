----------------------------- MODULE Validate -----------------------------
(***************************************************************************)
(* Query and limit validation (internal/validation/validation.go).         *)
(* A query is a sequence of characters, each abstracted to a class:        *)
(*   1 L  ASCII letter/digit/punctuation (1 byte)                          *)
(*   2 M  multi-byte letter (2 bytes)        3 W  wide letter (4 bytes)    *)
(*   4 S  ASCII space                        5 T  tab  (control + space)   *)
(*   6 N  newline (control + space)          7 U  Unicode space (3 bytes)  *)
(*   8 C  control character, not white space (1 byte)                      *)
(*   9 E  NEL U+0085: control and white space (2 bytes)                    *)
(*  10 X  shell metacharacter < > | & ; $                                  *)
(*  11 B  a byte that is not valid UTF-8                                   *)
(*  12 R  U+FFFD replacement character (3 bytes)                           *)
(*  13 H  three-byte letter                 14 P  two-byte space (NBSP)    *)
(*  15 D  two-byte control (C1)             16 V  CR/VT/FF: control+space  *)
(* The stages follow the code: BlankCheck, LengthCheck, Strip, MetaCheck,  *)
(* Collapse.  Design switch InvalidByte: "keep" (an invalid byte stays the *)
(* byte it is) | "replace" (it is turned into U+FFFD, three bytes).        *)
(***************************************************************************)
EXTENDS Integers, Sequences, FiniteSets, TLC
CONSTANTS Max, InvalidByte

Width(c) == CASE c = 1 -> 1 [] c = 2 -> 2 [] c = 3 -> 4 [] c = 4 -> 1 [] c = 5 -> 1 [] c = 6 -> 1 [] c = 7 -> 3
              [] c = 8 -> 1 [] c = 9 -> 2 [] c = 10 -> 1 [] c = 11 -> 1 [] c = 12 -> 3
              [] c = 13 -> 3 [] c = 14 -> 2 [] c = 15 -> 2 [] c = 16 -> 1
IsCtl(c)  == c \in {5, 6, 8, 9, 15, 16}
IsWS(c)   == c \in {4, 5, 6, 7, 9, 14, 16}
IsMeta(c) == c = 10

RECURSIVE Bytes(_)
Bytes(s) == IF s = <<>> THEN 0 ELSE Width(Head(s)) + Bytes(Tail(s))

\* stage Strip: control characters other than tab/newline are deleted; invalid bytes per the switch
StripC(c) == IF c = 11 /\ InvalidByte = "replace" THEN 12 ELSE c
Strip(s)  == LET kept == SelectSeq(s, LAMBDA c : ~(IsCtl(c) /\ c \notin {5, 6})) IN [i \in 1..Len(kept) |-> StripC(kept[i])]

\* stage Collapse: split on white space, join with one ASCII space
RECURSIVE Collapse(_, _, _)
Collapse(s, out, pendingSpace) ==
    IF s = <<>> THEN out
    ELSE IF IsWS(Head(s)) THEN Collapse(Tail(s), out, out # <<>>)
    ELSE Collapse(Tail(s), (IF pendingSpace THEN Append(out, 4) ELSE out) \o <<Head(s)>>, FALSE)

Blank(s)   == \A i \in 1..Len(s) : IsWS(s[i])
HasMeta(s) == \E i \in 1..Len(s) : IsMeta(s[i])

\* what the property states
Accept(s) == Bytes(s) <= Max /\ ~HasMeta(s) /\ ~Blank(SelectSeq(s, LAMBDA c : ~IsCtl(c)))
Out(s)    == Collapse(Strip(s), <<>>, FALSE)

\* outcome of the staged implementation (must agree with Accept/Out)
Staged(s) ==
    IF Blank(s) THEN [ok |-> FALSE, why |-> "empty", out |-> <<>>]
    ELSE IF Bytes(s) > Max THEN [ok |-> FALSE, why |-> "long", out |-> <<>>]
    ELSE IF HasMeta(Strip(s)) THEN [ok |-> FALSE, why |-> "meta", out |-> <<>>]
    ELSE IF Collapse(Strip(s), <<>>, FALSE) = <<>> THEN [ok |-> FALSE, why |-> "empty", out |-> <<>>]
    ELSE [ok |-> TRUE, why |-> "", out |-> Collapse(Strip(s), <<>>, FALSE)]

Clean(o) ==
    /\ \A i \in 1..Len(o) : ~IsCtl(o[i]) /\ ~IsMeta(o[i]) /\ (IsWS(o[i]) => o[i] = 4)
    /\ (o # <<>> => o[1] # 4 /\ o[Len(o)] # 4)
    /\ \A i \in 1..(Len(o) - 1) : ~(o[i] = 4 /\ o[i + 1] = 4)

\* theorems of C14 about one input s
StagedAgrees(s) == Staged(s).ok = Accept(s) /\ (Accept(s) => Staged(s).out = Out(s))
OutClean(s)     == Accept(s) => Clean(Out(s)) /\ Len(Out(s)) <= Len(s) /\ Len(Out(s)) >= 1
Idempotent(s)   == Accept(s) => (Accept(Out(s)) /\ Out(Out(s)) = Out(s))

LimitAccept(n)       == n >= 0 /\ n <= 100
LimitValue(n, deflt) == IF n = 0 THEN deflt ELSE n
=============================================================================
