------------------------------- MODULE Conc -------------------------------
(***************************************************************************)
(* Concurrent use of the shared structures (C11, concurrent half of C18):  *)
(* threads run operations whose bodies are split into the code's           *)
(* micro-steps under a reader/writer lock with a lock mode per operation.  *)
(*   op "get"   : acquire(GetMode); read entry; bump hit counter           *)
(*                (read-modify-write in two steps); release                *)
(*   op "stats" : acquire("R"); read counter; release                      *)
(*   op "inc"   : metric counter increment, atomic or read-modify-write    *)
(*   op "goc"   : metric get-or-create: RLock lookup; (miss) Lock,         *)
(*                re-check (switch), create; Unlock                        *)
(* Design switches: GetMode "W" | "R" ; IncMode "atomic" | "rmw" ;         *)
(* Recheck TRUE | FALSE.                                                   *)
(***************************************************************************)
EXTENDS Integers, Sequences, FiniteSets, TLC
CONSTANTS Threads, Prog, GetMode, IncMode, Recheck
\* Prog: thread -> sequence of operations
VARIABLES pc, ip, writer, readers, hits, tmp, ctr, series, mine, doneGets, doneIncs
cvars == <<pc, ip, writer, readers, hits, tmp, ctr, series, mine, doneGets, doneIncs>>
None == 0      \* thread ids are positive integers

Init == /\ pc = [t \in Threads |-> "idle"] /\ ip = [t \in Threads |-> 1]
        /\ writer = None /\ readers = {} /\ hits = 0 /\ tmp = [t \in Threads |-> 0]
        /\ ctr = 0 /\ series = 0 /\ mine = [t \in Threads |-> 0] /\ doneGets = 0 /\ doneIncs = 0

Op(t) == Prog[t][ip[t]]
CanW(t) == writer = None /\ readers = {}
CanR(t) == writer = None
Acq(t, mode) == IF mode = "W" THEN CanW(t) /\ writer' = t /\ UNCHANGED readers
                              ELSE CanR(t) /\ readers' = readers \cup {t} /\ UNCHANGED writer
Rel(t) == IF writer = t THEN writer' = None /\ UNCHANGED readers ELSE readers' = readers \ {t} /\ UNCHANGED writer

Begin(t) == /\ pc[t] = "idle" /\ ip[t] <= Len(Prog[t])
            /\ CASE Op(t) = "get"   -> Acq(t, GetMode) /\ pc' = [pc EXCEPT ![t] = "get-read"] /\ UNCHANGED <<hits, tmp, ctr, series, mine, doneGets, doneIncs>>
                 [] Op(t) = "stats" -> Acq(t, "R") /\ pc' = [pc EXCEPT ![t] = "stats-read"] /\ UNCHANGED <<hits, tmp, ctr, series, mine, doneGets, doneIncs>>
                 [] Op(t) = "inc"   -> /\ UNCHANGED <<writer, readers, hits, series, mine, doneGets>>
                                       /\ IF IncMode = "atomic"
                                            THEN ctr' = ctr + 1 /\ doneIncs' = doneIncs + 1 /\ pc' = [pc EXCEPT ![t] = "fin"] /\ UNCHANGED tmp
                                            ELSE tmp' = [tmp EXCEPT ![t] = ctr] /\ pc' = [pc EXCEPT ![t] = "inc-write"] /\ UNCHANGED <<ctr, doneIncs>>
                 [] Op(t) = "goc"   -> Acq(t, "R") /\ pc' = [pc EXCEPT ![t] = "goc-look"] /\ UNCHANGED <<hits, tmp, ctr, series, mine, doneGets, doneIncs>>
            /\ UNCHANGED ip

Step(t) ==
    \/ /\ pc[t] = "get-read" /\ tmp' = [tmp EXCEPT ![t] = hits] /\ pc' = [pc EXCEPT ![t] = "get-write"]
       /\ UNCHANGED <<ip, writer, readers, hits, ctr, series, mine, doneGets, doneIncs>>
    \/ /\ pc[t] = "get-write" /\ hits' = tmp[t] + 1 /\ doneGets' = doneGets + 1 /\ Rel(t) /\ pc' = [pc EXCEPT ![t] = "fin"]
       /\ UNCHANGED <<ip, tmp, ctr, series, mine, doneIncs>>
    \/ /\ pc[t] = "stats-read" /\ Rel(t) /\ pc' = [pc EXCEPT ![t] = "fin"]
       /\ UNCHANGED <<ip, hits, tmp, ctr, series, mine, doneGets, doneIncs>>
    \/ /\ pc[t] = "inc-write" /\ ctr' = tmp[t] + 1 /\ doneIncs' = doneIncs + 1 /\ pc' = [pc EXCEPT ![t] = "fin"]
       /\ UNCHANGED <<ip, writer, readers, hits, tmp, series, mine, doneGets>>
    \/ /\ pc[t] = "goc-look" /\ Rel(t)                 \* lookup under the read lock, then drop it
       /\ IF series > 0 THEN mine' = [mine EXCEPT ![t] = 1] /\ pc' = [pc EXCEPT ![t] = "fin"]
                        ELSE mine' = mine /\ pc' = [pc EXCEPT ![t] = "goc-lock"]
       /\ UNCHANGED <<ip, hits, tmp, ctr, series, doneGets, doneIncs>>
    \/ /\ pc[t] = "goc-lock" /\ Acq(t, "W") /\ pc' = [pc EXCEPT ![t] = "goc-create"]
       /\ UNCHANGED <<ip, hits, tmp, ctr, series, mine, doneGets, doneIncs>>
    \/ /\ pc[t] = "goc-create" /\ Rel(t)
       /\ IF Recheck /\ series > 0 THEN series' = series /\ mine' = [mine EXCEPT ![t] = 1]
                                   ELSE series' = series + 1 /\ mine' = [mine EXCEPT ![t] = series + 1]
       /\ pc' = [pc EXCEPT ![t] = "fin"]
       /\ UNCHANGED <<ip, hits, tmp, ctr, doneGets, doneIncs>>
    \/ /\ pc[t] = "fin" /\ ip' = [ip EXCEPT ![t] = @ + 1] /\ pc' = [pc EXCEPT ![t] = "idle"]
       /\ UNCHANGED <<writer, readers, hits, tmp, ctr, series, mine, doneGets, doneIncs>>

Next == \E t \in Threads : Begin(t) \/ Step(t)
Spec == Init /\ [][Next]_cvars

MutualExclusion == writer # None => readers = {}
Quiescent == \A t \in Threads : pc[t] = "idle"
NoLostHit == Quiescent => hits = doneGets
NoLostIncrement == Quiescent => ctr = doneIncs
OneSeries == series <= 1 /\ (Quiescent => \A t \in Threads : mine[t] \in {0, 1})
=============================================================================
