------------------------------- MODULE LRU -------------------------------
(***************************************************************************)
(* Bounded LRU cache with a staleness limit (internal/cache/lru_cache.go). *)
(*                                                                         *)
(* One action per public call (each call is one critical section under     *)
(* the cache mutex).  Guards/effects say what property C12 fixes; what it  *)
(* leaves open is non-deterministic:                                       *)
(*   - whether an overwrite refreshes the entry's expiry clock,            *)
(*   - whether a lookup that finds an expired entry removes it,            *)
(*   - which subset of the expired entries a sweep removes,                *)
(*   - whether removing an expired entry counts as an eviction is NOT free:*)
(*     evictions count capacity evictions only (what "eviction" means for  *)
(*     the statistics since the last clear).                               *)
(*                                                                         *)
(* Canonical state: ages (saturating at ttl+1) instead of absolute times,  *)
(* no data for absent keys.                                                *)
(***************************************************************************)
EXTENDS Integers, Sequences, FiniteSets, TLC

CONSTANTS
    DefaultCap,     \* effective capacity when the requested one is < 1
    TouchOnGet,     \* design switch: a hit refreshes recency         (code: TRUE)
    TouchOnUpdate,  \* design switch: an overwrite refreshes recency  (code: TRUE)
    ExpireBy        \* design switch: "created" | "accessed" clock tested for expiry (code: "created")

VARIABLES
    ents,       \* Seq of [k, v, age, vage, aage], front = most recently used
    ttl,        \* lifetime in ticks; 0 = unlimited
    cap,        \* capacity in force
    hits, misses, evictions,
    use,        \* ghost: keys ordered by last successful read/write, oldest first
    last        \* observation: what the last call returned

vars == <<ents, ttl, cap, hits, misses, evictions, use, last>>

NoKey == -1
NoVal == -1

Ret(op, k, v, found, n) == [op |-> op, k |-> k, v |-> v, found |-> found, n |-> n]

KeysOf(s)     == {s[i].k : i \in 1..Len(s)}
Present       == KeysOf(ents)
Idx(k)        == CHOOSE i \in 1..Len(ents) : ents[i].k = k
Without(s, k) == SelectSeq(s, LAMBDA e : e.k # k)
WithoutK(s, k) == SelectSeq(s, LAMBDA x : x # k)
Sat(n)        == IF ttl = 0 THEN 0 ELSE IF n > ttl THEN ttl + 1 ELSE n
Clock(e)      == IF ExpireBy = "created" THEN e.age ELSE e.aage
Expired(e)    == ttl > 0 /\ Clock(e) > ttl
ExpiredKeys   == {k \in Present : Expired(ents[Idx(k)])}

New(capReq, capEff, t) ==
    /\ capEff = IF capReq >= 1 THEN capReq ELSE DefaultCap
    /\ capEff >= 1
    /\ ents' = <<>> /\ use' = <<>>
    /\ ttl' = t /\ cap' = capEff
    /\ hits' = 0 /\ misses' = 0 /\ evictions' = 0
    /\ last' = Ret("new", NoKey, NoVal, FALSE, capEff)

Get(k) ==
    \/ /\ k \notin Present
       /\ misses' = misses + 1
       /\ last' = Ret("get", k, NoVal, FALSE, 0)
       /\ UNCHANGED <<ents, ttl, cap, hits, evictions, use>>
    \/ /\ k \in Present /\ Expired(ents[Idx(k)])
       /\ misses' = misses + 1
       /\ \/ ents' = Without(ents, k) /\ use' = WithoutK(use, k)   \* free: drop the stale entry ...
          \/ UNCHANGED <<ents, use>>                               \* ... or leave it for the sweep
       /\ last' = Ret("get", k, NoVal, FALSE, 0)
       /\ UNCHANGED <<ttl, cap, hits, evictions>>
    \/ /\ k \in Present /\ ~Expired(ents[Idx(k)])
       /\ hits' = hits + 1
       /\ LET e == [ents[Idx(k)] EXCEPT !.aage = 0] IN
            ents' = IF TouchOnGet THEN <<e>> \o Without(ents, k)
                                  ELSE [ents EXCEPT ![Idx(k)] = e]
       /\ use' = Append(WithoutK(use, k), k)
       /\ last' = Ret("get", k, ents[Idx(k)].v, TRUE, 0)
       /\ UNCHANGED <<ttl, cap, misses, evictions>>

Put(k, v) ==
    \/ /\ k \in Present                                   \* overwrite
       /\ \E a \in {ents[Idx(k)].age, 0} :                \* free: keep or refresh the expiry clock
            LET e == [ents[Idx(k)] EXCEPT !.v = v, !.vage = 0, !.age = a, !.aage = 0] IN
              ents' = IF TouchOnUpdate THEN <<e>> \o Without(ents, k)
                                       ELSE [ents EXCEPT ![Idx(k)] = e]
       /\ use' = Append(WithoutK(use, k), k)
       /\ last' = Ret("put", k, v, FALSE, NoKey)
       /\ UNCHANGED <<ttl, cap, hits, misses, evictions>>
    \/ /\ k \notin Present                                \* insert, evicting when full
       /\ LET grown == <<[k |-> k, v |-> v, age |-> 0, vage |-> 0, aage |-> 0]>> \o ents IN
            IF Len(grown) > cap
              THEN /\ ents' = SubSeq(grown, 1, Len(grown) - 1)
                   /\ use' = Append(WithoutK(use, grown[Len(grown)].k), k)
                   /\ evictions' = evictions + 1
                   /\ last' = Ret("put", k, v, FALSE, grown[Len(grown)].k)
              ELSE /\ ents' = grown
                   /\ use' = Append(use, k)
                   /\ evictions' = evictions
                   /\ last' = Ret("put", k, v, FALSE, NoKey)
       /\ UNCHANGED <<ttl, cap, hits, misses>>

Delete(k) ==
    \/ /\ k \notin Present
       /\ last' = Ret("delete", k, NoVal, FALSE, 0)
       /\ UNCHANGED <<ents, ttl, cap, hits, misses, evictions, use>>
    \/ /\ k \in Present
       /\ ents' = Without(ents, k) /\ use' = WithoutK(use, k)
       /\ \E f \in (IF Expired(ents[Idx(k)]) THEN {TRUE, FALSE} ELSE {TRUE}) :
              last' = Ret("delete", k, NoVal, f, 0)
       /\ UNCHANGED <<ttl, cap, hits, misses, evictions>>

\* several deletions in one step (SearchCache.InvalidatePattern: one Delete per key whose text contains the pattern);
\* the result is the number of entries removed, expired or not; the counters stay
DeleteSet(R) ==
    /\ ents' = SelectSeq(ents, LAMBDA e : e.k \notin R)
    /\ use' = SelectSeq(use, LAMBDA x : x \notin R)
    /\ last' = Ret("deleteset", NoKey, NoVal, FALSE, Cardinality(R \cap Present))
    /\ UNCHANGED <<ttl, cap, hits, misses, evictions>>

Clear ==
    /\ ents' = <<>> /\ use' = <<>>
    /\ hits' = 0 /\ misses' = 0 /\ evictions' = 0
    /\ last' = Ret("clear", NoKey, NoVal, FALSE, 0)
    /\ UNCHANGED <<ttl, cap>>

SweepSet(R) ==
    /\ R \subseteq ExpiredKeys
    /\ ents' = SelectSeq(ents, LAMBDA e : e.k \notin R)
    /\ use' = SelectSeq(use, LAMBDA x : x \notin R)
    /\ last' = Ret("sweep", NoKey, NoVal, FALSE, Cardinality(R))
    /\ UNCHANGED <<ttl, cap, hits, misses, evictions>>

Sweep == \E R \in SUBSET ExpiredKeys : SweepSet(R)          \* free: any subset of the expired

Tick(n) ==
    /\ n >= 1
    /\ ents' = [i \in 1..Len(ents) |->
                 [ents[i] EXCEPT !.age = Sat(@ + n), !.vage = Sat(@ + n), !.aage = Sat(@ + n)]]
    /\ last' = Ret("tick", NoKey, NoVal, FALSE, n)
    /\ UNCHANGED <<ttl, cap, hits, misses, evictions, use>>

SizeOp  == last' = Ret("size", NoKey, NoVal, FALSE, Len(ents)) /\ UNCHANGED <<ents, ttl, cap, hits, misses, evictions, use>>
StatsOp == last' = Ret("stats", NoKey, NoVal, FALSE, Len(ents)) /\ UNCHANGED <<ents, ttl, cap, hits, misses, evictions, use>>
KeysOp  == last' = Ret("keys", NoKey, NoVal, FALSE, Len(ents)) /\ UNCHANGED <<ents, ttl, cap, hits, misses, evictions, use>>

---------------------------------------------------------------------------
(* Properties (C12) *)

Bounded      == Len(ents) <= cap /\ cap >= 1
DistinctKeys == \A i, j \in 1..Len(ents) : ents[i].k = ents[j].k => i = j
CountersOK   == hits >= 0 /\ misses >= 0 /\ evictions >= 0
ValueNotOlderThanEntry == \A i \in 1..Len(ents) : ents[i].vage <= ents[i].age \/ ExpireBy # "created"
\* the implementation-shaped order (front = MRU) agrees with the property-level ghost
RecencyOrder == use = [i \in 1..Len(ents) |-> ents[Len(ents) + 1 - i].k]

\* action properties, evaluated on every transition
FreshHit ==                       \* a hit never returns a value stored longer ago than the lifetime
    (last'.op = "get" /\ last'.found) =>
        (last'.k \in Present /\ (ttl = 0 \/ ents[Idx(last'.k)].vage <= ttl))
HitReturnsLatest ==
    (last'.op = "get" /\ last'.found) => last'.v = ents[Idx(last'.k)].v
PresentLiveIsHit ==               \* "returns the value ... if it is still present"
    (last'.op = "get" /\ ~last'.found /\ last'.k \in Present) => Expired(ents[Idx(last'.k)])
EvictsLRU ==                      \* inserting into a full cache discards exactly the LRU key
    (last'.op = "put" /\ last'.k \notin Present /\ Len(ents) = cap) =>
        /\ KeysOf(ents') = (Present \ {Head(use)}) \cup {last'.k}
        /\ evictions' = evictions + 1
NoSpuriousEviction ==
    (last'.op = "put" /\ (last'.k \in Present \/ Len(ents) < cap)) =>
        /\ KeysOf(ents') = Present \cup {last'.k}
        /\ evictions' = evictions
SweepOnlyExpired ==
    last'.op = "sweep" => (Present \ KeysOf(ents')) \subseteq ExpiredKeys
                          /\ Cardinality(Present \ KeysOf(ents')) = last'.n
StatsExact ==
    /\ (last'.op = "get" /\ last'.found)  => (hits' = hits + 1 /\ misses' = misses)
    /\ (last'.op = "get" /\ ~last'.found) => (misses' = misses + 1 /\ hits' = hits)
    /\ last'.op = "clear" => (hits' = 0 /\ misses' = 0 /\ evictions' = 0 /\ ents' = <<>>)
    /\ last'.op \notin {"get", "clear", "put", "new"} => UNCHANGED <<hits, misses, evictions>>
=============================================================================
