---------------------------- MODULE AtomicWrite ----------------------------
(***************************************************************************)
(* Replacing a user-owned file (personal notebook, search history) as a    *)
(* sequence of file-system steps of the writer process, with the           *)
(* environment free to crash the process or fail a step at any point       *)
(* (internal/cli/save.go writePersonalDatabase, internal/history Save).    *)
(*   target : what is visible at the file's path: "absent" | "old" |       *)
(*            "empty" | "partial" | "new"                                  *)
(*   tmp    : a temporary file beside it: "none" | "empty" | "partial" |   *)
(*            "new"                                                        *)
(*   pc     : "start" | "open" (a file is open for writing) | "closed" |   *)
(*            "done" | "failed" (an error was seen and reported) | "dead"  *)
(* Design switch WriteMode: "tmp+rename" | "inplace".                      *)
(***************************************************************************)
EXTENDS Integers, TLC
CONSTANTS WriteMode, HadOld
VARIABLES target, tmp, pc, wrote
avars == <<target, tmp, pc, wrote>>

Old == IF HadOld THEN "old" ELSE "absent"
AInit == target = Old /\ tmp = "none" /\ pc = "start" /\ wrote = "none"

\* --- writer steps ---------------------------------------------------------
OpenTrunc ==            \* open the live file with O_TRUNC (only the in-place writer does this)
    /\ WriteMode = "inplace" /\ pc = "start"
    /\ target' = "empty" /\ pc' = "open" /\ wrote' = "target" /\ UNCHANGED tmp
OpenTmp ==              \* create a temporary file in the same directory
    /\ WriteMode = "tmp+rename" /\ pc = "start"
    /\ tmp' = "empty" /\ pc' = "open" /\ wrote' = "tmp" /\ UNCHANGED target
Next3(x) == IF x = "empty" THEN {"partial", "new"} ELSE IF x = "partial" THEN {"partial", "new"} ELSE {x}
Write ==                \* one write call: any number of the remaining bytes (short writes)
    /\ pc = "open"
    /\ IF wrote = "target" THEN target' \in Next3(target) /\ UNCHANGED tmp
                           ELSE tmp' \in Next3(tmp) /\ UNCHANGED target
    /\ UNCHANGED <<pc, wrote>>
Sync  == pc = "open" /\ UNCHANGED avars          \* fsync: no visible effect
Close == pc = "open" /\ pc' = "closed" /\ UNCHANGED <<target, tmp, wrote>>
Rename ==               \* only a completely written temporary file is renamed over the target
    /\ pc = "closed" /\ wrote = "tmp" /\ tmp = "new"
    /\ target' = "new" /\ tmp' = "none" /\ pc' = "done" /\ UNCHANGED wrote
FinishInPlace == pc = "closed" /\ wrote = "target" /\ target = "new" /\ pc' = "done" /\ UNCHANGED <<target, tmp, wrote>>
Cleanup == pc = "failed" /\ tmp # "none" /\ tmp' = "none" /\ UNCHANGED <<target, pc, wrote>>   \* unlink the temporary file
\* --- environment ------------------------------------------------------------
Fail  == pc \in {"start", "open", "closed"} /\ pc' = "failed" /\ UNCHANGED <<target, tmp, wrote>>   \* a step returns an error; the writer reports it
Crash == pc \in {"start", "open", "closed"} /\ pc' = "dead" /\ UNCHANGED <<target, tmp, wrote>>     \* the process is killed

ANext == OpenTrunc \/ OpenTmp \/ Write \/ Sync \/ Close \/ Rename \/ FinishInPlace \/ Cleanup \/ Fail \/ Crash
ASpec == AInit /\ [][ANext]_avars

Intact == target \in {Old, "new"}                         \* never a truncated or mixed file
ReportsFailure == pc = "done" => target = "new"           \* success is only reported when the new content is in place
=============================================================================
