----------------------------- MODULE TracePerms -----------------------------
(* Calls of the real CreateSecureFile / WriteSecureFile / SetSecureFilePermissions / ValidateFilePermissions on one path *)
EXTENDS Perms, Json, IOUtils, Sequences
VARIABLE l
Trace == ndJsonDeserialize(IOEnv.TRACEFILE)
Ev == Trace[l]
Seen == there' = Ev.there /\ (Ev.there => mode' = Bits(Ev.mode))
TBegin  == Ev.op = "begin" /\ there' = FALSE /\ mode' = {} /\ last' = "init"
TWrite  == Ev.op = "write" /\ Write(Ev.kind, Bits(Ev.mask)) /\ Seen /\ Ev.ok
TSecure == Ev.op = "secure" /\ (IF there THEN Secure(Ev.kind) /\ Ev.ok ELSE UNCHANGED pvars /\ ~Ev.ok) /\ Seen
TChmod  == Ev.op = "chmod" /\ Chmod(Bits(Ev.mode)) /\ Seen
TRemove == Ev.op = "rm" /\ Remove /\ Seen
TValidate == Ev.op = "validate" /\ Ev.verdict = Verdict(Ev.kind) /\ UNCHANGED pvars
TraceInit == l = 1 /\ Init
TraceNext == l <= Len(Trace) /\ l' = l + 1 /\ (TBegin \/ TWrite \/ TSecure \/ TChmod \/ TRemove \/ TValidate)
TraceSpec == TraceInit /\ [][TraceNext]_<<pvars, l>>
TraceAccepted ==
    LET d == TLCGet("stats").diameter IN
    IF d - 1 = Len(Trace) THEN TRUE ELSE Print(<<"TRACE_REJECTED_AT", d>>, FALSE)
=============================================================================
