----------------------------- MODULE History -----------------------------
(***************************************************************************)
(* Search history (internal/history/history.go): a bounded, ordered,       *)
(* persisted log.  One action per public call; SetFile is the environment  *)
(* (somebody else writing the on-disk file).                               *)
(*                                                                         *)
(* Entries are [q |-> query id, id |-> identity of the full entry (all of  *)
(* its fields: query bytes, time stamp, result count, context, duration)]. *)
(*                                                                         *)
(* Left open by property C16 (non-deterministic here):                     *)
(*   - what a failed Load leaves behind (it may have decoded a part),      *)
(*   - whether Load repairs a nonsensical maximum, and to which value,     *)
(*   - the bound used by Add when the maximum in force is < 1 (any bound   *)
(*     >= 1: recording must not crash and must keep the newest entry).     *)
(* Design switch MaxFromFile describes what Add does with a maximum < 1:   *)
(*   "sanitised" (required by C16) | "raw" (slice arithmetic on the raw    *)
(*   value: negative = crash, zero = everything dropped).                  *)
(***************************************************************************)
EXTENDS Integers, Sequences, FiniteSets, TLC

CONSTANTS DefaultMax, MaxFromFile

VARIABLES ents, max, file, crashed, last
hvars == <<ents, max, file, crashed, last>>

NoFile(cls) == [cls |-> cls, ents |-> <<>>, max |-> 0]
HRet(op, q, ok, n) == [op |-> op, q |-> q, ok |-> ok, n |-> n]

Suffix(s, n) == IF n >= Len(s) THEN s ELSE SubSeq(s, Len(s) - n + 1, Len(s))
Queries(e) == {e[i].q : i \in 1..Len(e)}
CountOf(e, q) == Cardinality({i \in 1..Len(e) : e[i].q = q})

RECURSIVE RecentRec(_, _, _, _)
RecentRec(e, i, acc, n) ==
    IF i = 0 \/ Len(acc) >= n THEN acc
    ELSE IF \E j \in 1..Len(acc) : acc[j] = e[i].q THEN RecentRec(e, i - 1, acc, n)
    ELSE RecentRec(e, i - 1, Append(acc, e[i].q), n)
RecentOf(e, n) == RecentRec(e, Len(e), <<>>, n)

\* a "top" answer: res is a sequence of <<q, count>>
TopOK(res, e, n) ==
    /\ \A i \in 1..Len(res) : res[i][2] = CountOf(e, res[i][1]) /\ res[i][2] >= 1
    /\ \A i, j \in 1..Len(res) : res[i][1] = res[j][1] => i = j
    /\ \A i \in 1..(Len(res) - 1) : res[i][2] >= res[i + 1][2]
    /\ Len(res) = IF n < Cardinality(Queries(e)) THEN n ELSE Cardinality(Queries(e))
    /\ \A q \in Queries(e) : (\A i \in 1..Len(res) : res[i][1] # q) =>
                                \A i \in 1..Len(res) : res[i][2] >= CountOf(e, q)
SumCounts(res) == LET RECURSIVE S(_) S(i) == IF i = 0 THEN 0 ELSE res[i][2] + S(i - 1) IN S(Len(res))

New(maxReq, eff) ==
    /\ eff = IF maxReq >= 1 THEN maxReq ELSE DefaultMax
    /\ ents' = <<>> /\ max' = eff /\ crashed' = FALSE
    /\ last' = HRet("new", 0, TRUE, eff)
    /\ UNCHANGED file

SetFile(f) ==
    /\ file' = f
    /\ last' = HRet("setfile", 0, TRUE, 0)
    /\ UNCHANGED <<ents, max, crashed>>

\* bound: the bound Add applies; free when the maximum in force is nonsensical
AddB(q, id, bound) ==
    /\ ~crashed
    /\ IF max >= 1 THEN bound = max ELSE bound >= 1
    /\ LET e == [q |-> q, id |-> id] IN
         IF Len(ents) > 0 /\ ents[Len(ents)].q = q
           THEN ents' = [ents EXCEPT ![Len(ents)] = e]          \* immediate repeat updates the last entry
           ELSE ents' = Suffix(Append(ents, e), bound)
    /\ last' = HRet("add", q, TRUE, 0)
    /\ UNCHANGED <<max, file, crashed>>

\* what the raw slice arithmetic does with a maximum < 1 (defect model, only under MaxFromFile = "raw")
AddRaw(q, id) ==
    /\ ~crashed /\ max < 1 /\ MaxFromFile = "raw"
    /\ ~(Len(ents) > 0 /\ ents[Len(ents)].q = q)
    /\ IF max < 0 THEN crashed' = TRUE /\ ents' = ents
                  ELSE crashed' = FALSE /\ ents' = <<>>
    /\ last' = HRet("add", q, ~crashed', 0)
    /\ UNCHANGED <<max, file>>

Save ==
    /\ ~crashed
    /\ file' = [cls |-> "valid", ents |-> ents, max |-> max]
    /\ last' = HRet("save", 0, TRUE, 0)
    /\ UNCHANGED <<ents, max, crashed>>

\* e, m: the state Load leaves behind
LoadTo(e, m) ==
    /\ ~crashed
    /\ CASE file.cls \in {"missing", "empty"} -> e = ents /\ m = max /\ last' = HRet("load", 0, TRUE, 0)
         [] file.cls = "garbage" -> last' = HRet("load", 0, FALSE, 0)       \* e, m free
         [] file.cls = "valid"   -> /\ e = file.ents
                                    /\ (m = file.max \/ (file.max < 1 /\ m >= 1))
                                    /\ last' = HRet("load", 0, TRUE, 0)
    /\ ents' = e /\ max' = m
    /\ UNCHANGED <<file, crashed>>

Clear ==
    /\ ~crashed
    /\ ents' = <<>>
    /\ file' = [cls |-> "valid", ents |-> <<>>, max |-> max]
    /\ last' = HRet("clear", 0, TRUE, 0)
    /\ UNCHANGED <<max, crashed>>

---------------------------------------------------------------------------
(* Properties (C16) *)
NeverCrashes == ~crashed
AfterAdd ==                         \* action property
    last'.op = "add" =>
        /\ Len(ents') >= 1 /\ ents'[Len(ents')].q = last'.q
        /\ (max >= 1 => Len(ents') <= IF Len(ents) > max THEN Len(ents) ELSE max)
        /\ \E k \in 0..Len(ents) :                                  \* the rest is a suffix of what was there
              SubSeq(ents', 1, Len(ents') - 1) = Suffix(SubSeq(ents, 1, Len(ents) - (IF Len(ents) > 0 /\ ents[Len(ents)].q = last'.q THEN 1 ELSE 0)), k)
Collapse ==
    (last'.op = "add" /\ Len(ents) > 0 /\ ents[Len(ents)].q = last'.q) => Len(ents') = Len(ents)
RoundTrip ==
    (last'.op = "load" /\ file.cls = "valid") => ents' = file.ents
SaveFaithful ==
    last'.op = "save" => (file'.cls = "valid" /\ file'.ents = ents)
=============================================================================
