----------------------------- MODULE TraceSetup -----------------------------
(* Runs of the real binary (`wtf setup <name>`) in scratch home directories, validated against Setup.tla as built. *)
EXTENDS Setup, Json, IOUtils
VARIABLE l
Trace == ndJsonDeserialize(IOEnv.TRACEFILE)
Ev == Trace[l]
SeqSet(s) == {s[i] : i \in 1..Len(s)}
Obs(f) == [there |-> Ev.files[f].there, defs |-> Ev.files[f].defs, ment |-> SeqSet(Ev.files[f].ment)]
TBegin == Ev.op = "begin" /\ sh' = [f \in Files |-> Obs(f)] /\ last' = ""
\* after the command the two files are what the model says, what was there before is still there byte for byte, nothing else changed
TRun   == Ev.op = "setup" /\ Run(Ev.name) /\ sh' = [f \in Files |-> Obs(f)]
            /\ (\A f \in Files : Ev.files[f].kept) /\ Ev.others = <<>> /\ ~Ev.crash /\ Ev.complete
TraceInit == l = 1 /\ sh = [f \in Files |-> [there |-> FALSE, defs |-> <<>>, ment |-> {}]] /\ last = ""
TraceNext == l <= Len(Trace) /\ l' = l + 1 /\ (TBegin \/ TRun)
TraceSpec == TraceInit /\ [][TraceNext]_<<svars, l>>
TraceAccepted ==
    LET d == TLCGet("stats").diameter IN
    IF d - 1 = Len(Trace) THEN TRUE ELSE Print(<<"TRACE_REJECTED_AT", d>>, FALSE)
=============================================================================
