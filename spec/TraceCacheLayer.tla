-------------------------- MODULE TraceCacheLayer --------------------------
(***************************************************************************)
(* Trace validation of histories recorded from the real CachedDatabase /   *)
(* MonitoredDatabase.  Each search logs the identity of the request        *)
(* (folded query + every option field, interned), the answer it got, the   *)
(* answer of the uncached engine on the same database at that moment, and  *)
(* whether the cache's hit counter moved.                                  *)
(* Capacity, lifetime and "empty answers are not stored" are not modelled: *)
(* `may` is the set of entries that MAY be stored (a superset of the real  *)
(* store), so a miss is always legal and a hit is legal only for an        *)
(* identity stored since the last invalidation - which is exactly "never   *)
(* share an entry" and "no entry outlives a replacement".                  *)
(***************************************************************************)
EXTENDS Integers, Sequences, FiniteSets, TLC, Json, IOUtils
VARIABLES may, on, l
Trace == ndJsonDeserialize(IOEnv.TRACEFILE)
Ev == Trace[l]
tvars == <<may, on, l>>

TReset == Ev.op = "reset" /\ may' = <<>> /\ on' = TRUE
TSearch == Ev.op = "search"
    /\ Ev.ans = Ev.fresh                                        \* transparency, the property itself
    /\ ~Ev.panic
    /\ IF Ev.hit
         THEN /\ on /\ Ev.id \in DOMAIN may /\ may[Ev.id] = Ev.ans  \* a hit only for this very identity, stored since the last invalidation
              /\ UNCHANGED <<may, on>>
         ELSE /\ may' = IF on THEN [x \in DOMAIN may \cup {Ev.id} |-> IF x = Ev.id THEN Ev.ans ELSE may[x]] ELSE may
              /\ UNCHANGED on
TInvalidate == Ev.op \in {"invalidate", "update"} /\ may' = <<>> /\ UNCHANGED on
TEnable == Ev.op = "enable" /\ on' = Ev.b /\ UNCHANGED may
TOther == Ev.op \in {"cleanup", "tick", "stats"} /\ UNCHANGED <<may, on>>
TraceInit == l = 1 /\ may = <<>> /\ on = TRUE
TraceNext == l <= Len(Trace) /\ l' = l + 1 /\ (TReset \/ TSearch \/ TInvalidate \/ TEnable \/ TOther)
TraceSpec == TraceInit /\ [][TraceNext]_tvars
TraceAccepted ==
    LET d == TLCGet("stats").diameter IN
    IF d - 1 = Len(Trace) THEN TRUE ELSE Print(<<"TRACE_REJECTED_AT", d>>, FALSE)
=============================================================================
