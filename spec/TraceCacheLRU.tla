--------------------------- MODULE TraceCacheLRU ---------------------------
(***************************************************************************)
(* X03 - composition: the result-cache layer (search_cached.go,            *)
(* search_monitored.go, cache.SearchCache, cache.Manager) seen as a client *)
(* of LRU.tla.  One recorded operation of the layer is a short program of  *)
(* LRU actions on the key "request identity":                              *)
(*                                                                         *)
(*   search, cache on      Get(id); on a miss with a non-empty answer      *)
(*                         Put(id, answer)                                 *)
(*   monitored search      one more probing Get(id) first (as built: the   *)
(*                         wrapper asks the cache itself before searching, *)
(*                         so every monitored search counts twice)         *)
(*   search, cache off     nothing                                         *)
(*   invalidate, update    Clear                                           *)
(*   cleanup               a sweep; tick: Tick(1)                          *)
(*                                                                         *)
(* After each operation the statistics the layer reports (hits, misses,    *)
(* evictions, size) must be the specification's, a hit must return the     *)
(* answer that was stored, and which requests hit is decided by the LRU    *)
(* model (capacity, recency, expiry) - the part C05 leaves open.           *)
(* ph counts the LRU steps already taken for the event under the cursor.   *)
(***************************************************************************)
EXTENDS LRU, Json, IOUtils
VARIABLES l, ph, on
Trace == ndJsonDeserialize(IOEnv.TRACEFILE)
Ev == Trace[l]
tvars == <<vars, l, ph, on>>

StatsAre(h, m, e, n) == h = Ev.sh /\ m = Ev.sm /\ e = Ev.se /\ n = Ev.sz
Done  == l' = l + 1 /\ ph' = 0
Stay  == l' = l /\ ph' = ph + 1

TReset == /\ Ev.op = "reset" /\ New(Ev.cap, Ev.cap, Ev.ttl) /\ on' = TRUE /\ Done
          /\ StatsAre(0, 0, 0, 0)

NGets == IF Ev.mon THEN 2 ELSE 1
\* the lookups of a search (the monitored wrapper's probe included)
TSearchGet ==
    /\ Ev.op = "search" /\ on /\ ~Ev.panic /\ ph < NGets
    /\ Get(Ev.id) /\ last'.found = Ev.hit
    /\ (Ev.hit => last'.v = Ev.ans)                     \* a hit hands out the stored answer
    /\ Stay /\ UNCHANGED on
\* ... then the store, unless it was a hit or there is nothing to store
TSearchPut ==
    /\ Ev.op = "search" /\ on /\ ~Ev.panic /\ ph = NGets /\ ~Ev.hit /\ Ev.nres > 0
    /\ Put(Ev.id, Ev.ans)
    /\ StatsAre(hits', misses', evictions', Len(ents'))
    /\ Done /\ UNCHANGED on
TSearchEnd ==
    /\ Ev.op = "search" /\ on /\ ~Ev.panic /\ ph = NGets /\ (Ev.hit \/ Ev.nres = 0)
    /\ StatsAre(hits, misses, evictions, Len(ents))
    /\ Done /\ UNCHANGED <<vars, on>>
TSearchOff ==
    /\ Ev.op = "search" /\ ~on /\ ~Ev.hit
    /\ StatsAre(hits, misses, evictions, Len(ents))
    /\ Done /\ UNCHANGED <<vars, on>>
\* the typed front driven directly (C12): a store files the list under the request identity, whatever its length;
\* an empty list is not stored; nothing happens while the cache is switched off
TScPut == /\ Ev.op = "scput"
          /\ IF on /\ Ev.nres > 0 THEN Put(Ev.id, Ev.ans) ELSE UNCHANGED vars
          /\ StatsAre(hits', misses', evictions', Len(ents'))
          /\ Done /\ UNCHANGED on
TScGet == /\ Ev.op = "scget"
          /\ IF on THEN Get(Ev.id) /\ last'.found = Ev.hit /\ (Ev.hit => last'.v = Ev.ans)      \* the value most recently stored
                   ELSE ~Ev.hit /\ UNCHANGED vars
          /\ StatsAre(hits', misses', evictions', Len(ents'))
          /\ Done /\ UNCHANGED on
TClear == /\ Ev.op \in {"invalidate", "update"} /\ Clear /\ StatsAre(0, 0, 0, 0) /\ Done /\ UNCHANGED on
\* InvalidatePattern: the keys are digests, so which requests a fragment of a digest matches is not known to the
\* recorder - the specification chooses the set (it must have the reported size) and the later lookups decide.
\* A pattern known to match every key ("", the key prefix) or none (a letter no digest contains) leaves no choice.
TInvPat ==
    /\ Ev.op = "invpat"
    /\ \E R \in SUBSET Present :
          /\ Cardinality(R) = Ev.n
          /\ (Ev.cls = "all" => R = Present) /\ (Ev.cls = "none" => R = {})
          /\ DeleteSet(R)
    /\ StatsAre(hits', misses', evictions', Len(ents'))
    /\ Done /\ UNCHANGED on
TEnable == /\ Ev.op = "enable" /\ on' = Ev.b /\ StatsAre(hits, misses, evictions, Len(ents)) /\ Done /\ UNCHANGED vars
TStats == /\ Ev.op = "stats" /\ StatsAre(hits, misses, evictions, Len(ents)) /\ Done /\ UNCHANGED <<vars, on>>
TTick  == /\ Ev.op = "tick"
          /\ IF ttl > 0 THEN Tick(1) ELSE UNCHANGED vars
          /\ Done /\ UNCHANGED on
\* as built: the sweep walks from the least recently used end and stops at the first entry that has not expired
BackExpired(k) == \A i \in (Len(ents) - k + 1)..Len(ents) : Expired(ents[i])
TCleanup ==
    /\ Ev.op = "cleanup" /\ Ev.n <= Len(ents) /\ BackExpired(Ev.n)
    /\ (Ev.n < Len(ents) => ~Expired(ents[Len(ents) - Ev.n]))
    /\ SweepSet({ents[i].k : i \in (Len(ents) - Ev.n + 1)..Len(ents)})
    /\ StatsAre(hits', misses', evictions', Len(ents'))
    /\ Done /\ UNCHANGED on

TraceInit == /\ TLCSet(1, 0) /\ l = 1 /\ ph = 0 /\ on = TRUE
             /\ ents = <<>> /\ use = <<>> /\ ttl = 0 /\ cap = 1 /\ hits = 0 /\ misses = 0 /\ evictions = 0
             /\ last = Ret("init", NoKey, NoVal, FALSE, 0)
TraceNext == /\ l <= Len(Trace)
             /\ (TReset \/ TSearchGet \/ TSearchPut \/ TSearchEnd \/ TSearchOff \/ TScPut \/ TScGet \/ TClear \/ TInvPat \/ TEnable \/ TStats \/ TTick \/ TCleanup)
TraceSpec == TraceInit /\ [][TraceNext]_tvars
\* every event is consumed: reaching the end violates this "invariant" (the search stops at the first witness)
NotDone == l <= Len(Trace)
Track == IF l > TLCGet(1) THEN TLCSet(1, l) ELSE TRUE
=============================================================================
