--------------------------- MODULE TraceMetrics ---------------------------
(* Trace validation of executions recorded from the real metrics.Collector / PerformanceMonitor *)
EXTENDS Metrics, Json, IOUtils
VARIABLES l, mon        \* mon: the performance monitor's switch (nothing is recorded while it is off)
Trace == ndJsonDeserialize(IOEnv.TRACEFILE)
Ev == Trace[l]
tvars == <<mvars, l, mon>>
TagSet(s) == {<<s[i][1], s[i][2]>> : i \in 1..Len(s)}
TagSeq(s) == [i \in 1..Len(s) |-> <<s[i][1], s[i][2]>>]
RO == UNCHANGED mvars

TReset == Ev.op = "reset" /\ reg' = {} /\ cval' = <<>> /\ hist' = <<>> /\ nSearch' = <<0, 0>> /\ nDb' = <<>> /\ mlast' = [op |-> "reset", sid |-> 0]
\* the iteration order is not observable: any permutation will do, so use the logged (sorted) order
TGet   == Ev.op = "get" /\ GetOrCreate(Ident(Ev.kind, Ev.name, TagSet(Ev.tags)), TagSeq(Ev.tags), Ev.sid)
TAdd   == Ev.op = "add" /\ Add(Ev.sid, Ev.n)
TCReset == Ev.op = "creset" /\ Ev.sid \in DOMAIN cval /\ cval' = [cval EXCEPT ![Ev.sid] = 0]
              /\ mlast' = [op |-> "creset", sid |-> Ev.sid] /\ UNCHANGED <<reg, hist, nSearch, nDb>>
TCVal  == Ev.op = "cval" /\ Ev.sid \in DOMAIN cval /\ cval[Ev.sid] = Ev.n /\ RO
TObs   == Ev.op = "observe" /\ Observe(Ev.sid, Ev.v)
THRead == Ev.op = "hread" /\ Ev.sid \in DOMAIN hist
             /\ hist[Ev.sid].count = Ev.count /\ hist[Ev.sid].sum = Ev.sum
             /\ (\A i \in 1..(Len(Ev.pcts) - 1) : Ev.pcts[i][2] <= Ev.pcts[i + 1][2])    \* monotone in p
             /\ RO
TRecS  == Ev.op = "recsearch" /\ (IF mon THEN RecordSearch(Ev.hit) ELSE RO)
TRecD  == Ev.op = "recdb" /\ (IF mon THEN RecordDb(Ev.name, Ev.hit) ELSE RO)
\* switching the monitor off or on (again) changes no total
TMEnable == Ev.op = "menable" /\ mon' = Ev.hit /\ RO
\* a search through the real monitored database: recorded exactly once, as a hit or as a miss (the report that follows says which)
TMSearch == Ev.op = "msearch" /\ \E h \in BOOLEAN : RecordSearch(h)
\* totals read back from the monitor's report
DbKey(i) == <<Ev.db[i][1], Ev.db[i][2] = 1>>
ReportOK ==
    /\ Ev.searches = nSearch /\ Ev.hits = nSearch[2] /\ Ev.misses = nSearch[1]
    /\ Ev.qlcount = nSearch[1] + nSearch[2]
    /\ {DbKey(i) : i \in 1..Len(Ev.db)} = DOMAIN nDb
    /\ (\A i \in 1..Len(Ev.db) : nDb[DbKey(i)] = Ev.db[i][3])
\* (timer histograms are not exported by the collector, so duration counts are not observable)
TReport == Ev.op = "report" /\ ReportOK /\ RO
\* concurrent burst: g goroutines x k increments on one identity
TConc  == Ev.op = "conc" /\ Ev.total = Ev.g * Ev.k /\ Ev.series = 1 /\ Ev.hcount = Ev.g * Ev.k /\ RO

TraceInit == l = 1 /\ mon = TRUE /\ reg = {} /\ cval = <<>> /\ hist = <<>> /\ nSearch = <<0, 0>> /\ nDb = <<>> /\ mlast = [op |-> "init", sid |-> 0]
TraceNext == l <= Len(Trace) /\ l' = l + 1 /\ (IF Ev.op = "menable" THEN TRUE ELSE IF Ev.op = "reset" THEN mon' = TRUE ELSE UNCHANGED mon)
             /\ (TMEnable \/ TReset \/ TGet \/ TAdd \/ TCReset \/ TCVal \/ TObs \/ THRead \/ TRecS \/ TRecD \/ TMSearch \/ TReport \/ TConc)
TraceSpec == TraceInit /\ [][TraceNext]_tvars
TraceAccepted ==
    LET d == TLCGet("stats").diameter IN
    IF d - 1 = Len(Trace) THEN TRUE ELSE Print(<<"TRACE_REJECTED_AT", d>>, FALSE)
RealBuckets == <<1, 5, 10, 25, 50, 100, 250, 500, 1000, 2500, 5000, 10000, 25000, 50000, 100000>>
=============================================================================
