----------------------------- MODULE TermSelect -----------------------------
(***************************************************************************)
(* Which terms an NLP-enhanced search looks up (C06, term-cap part of C03) *)
(* (search_universal.go: enhanceQueryWithNLP, selectTopTerms; processor.go *)
(* GetEnhancedKeywords).  Stages: Tokenise -> Analyse -> Enhance -> Cap.   *)
(*   user   : the user's indexed tokens, in order (duplicates possible)    *)
(*   extra  : the enhanced keywords the analysis proposes (keywords first, *)
(*            then hints, actions, targets), duplicate free                *)
(* Enhance appends proposals not yet present while fewer than A terms;     *)
(* Cap keeps everything up to M terms, otherwise the first P terms plus    *)
(* the best remaining ones by idf rank up to M.                            *)
(* Design switches: EnhanceMode "append" | "replace";                      *)
(*                  CapOrder "after" | "before" (cap applied before the    *)
(*                  user's tokens are in).                                 *)
(***************************************************************************)
EXTENDS Integers, Sequences, FiniteSets, TLC
CONSTANTS A, M, P, EnhanceMode, CapOrder,
          Idf(_)      \* term -> idf rank (higher = more informative); 0 = not in the index
VARIABLES user, extra, terms, stage
tsvars == <<user, extra, terms, stage>>

SeqSet(s) == {s[i] : i \in 1..Len(s)}
RECURSIVE AppendWhile(_, _)
AppendWhile(ts, xs) ==
    IF xs = <<>> THEN ts
    ELSE IF Head(xs) \notin SeqSet(ts) /\ Len(ts) < A THEN AppendWhile(Append(ts, Head(xs)), Tail(xs))
    ELSE AppendWhile(ts, Tail(xs))

RECURSIVE Dedup(_, _)
Dedup(s, seen) == IF s = <<>> THEN <<>> ELSE IF Head(s) \in seen THEN Dedup(Tail(s), seen)
                  ELSE <<Head(s)>> \o Dedup(Tail(s), seen \cup {Head(s)})
\* candidates beyond the first P, best idf first (ties: earlier first), terms unknown to the index dropped
RECURSIVE BestFirst(_)
BestFirst(S) == IF S = {} THEN <<>>
                ELSE LET b == CHOOSE x \in S : \A y \in S : Idf(x[1]) > Idf(y[1]) \/ (Idf(x[1]) = Idf(y[1]) /\ x[2] <= y[2])
                     IN <<b[1]>> \o BestFirst(S \ {b})
CapTerms(ts) ==
    IF Len(ts) <= M THEN ts
    ELSE LET d == Dedup(ts, {})
             keepN == IF Len(d) < P THEN Len(d) ELSE P
             first == SubSeq(d, 1, keepN)
             rest == {<<d[i], i>> : i \in {j \in (keepN + 1)..Len(d) : Idf(d[j]) > 0}}
             filled == first \o BestFirst(rest)
         IN IF Len(filled) <= M THEN filled ELSE SubSeq(filled, 1, M)

Enhance ==
    /\ stage = "analysed"
    /\ terms' = CASE EnhanceMode = "append" -> AppendWhile(IF CapOrder = "before" THEN CapTerms(user) ELSE user, extra)
                  [] OTHER -> IF extra = <<>> THEN user ELSE AppendWhile(<<>>, extra)
    /\ stage' = "enhanced" /\ UNCHANGED <<user, extra>>
Cap ==
    /\ stage = "enhanced"
    /\ terms' = IF CapOrder = "before" THEN terms ELSE CapTerms(terms)
    /\ stage' = "done" /\ UNCHANGED <<user, extra>>
Next == Enhance \/ Cap

Done == stage = "done"
\* C06: a query of up to M content words loses none of them; the first P are kept however long the query is
UserKept   == (Done /\ Len(user) <= M) => SeqSet(user) \subseteq SeqSet(terms)
FirstPKept == Done => \A i \in 1..(IF Len(Dedup(user, {})) < P THEN Len(Dedup(user, {})) ELSE P) : Dedup(user, {})[i] \in SeqSet(terms)
Bounded    == Done => (Len(terms) <= M \/ Len(terms) <= Len(user))
=============================================================================
