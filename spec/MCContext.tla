---------------------------- MODULE MCContext ----------------------------
(* scenario enumeration: every subset of a marker palette x content classes of package.json / Makefile *)
EXTENDS Context, Json, CSV, IOUtils
VARIABLE sc
Palette == {".git", "Dockerfile", "docker-compose.yml", "package.json", "yarn.lock", "go.mod", "requirements.txt", "Makefile", "main.tf", "vars.tfvars",
            "CMakeLists.txt", "zzq-notes.xyz", "README.zzq"}
Init == sc \in [files : SUBSET Palette, pkg : {"valid", "malformed", "odd", "huge"}, mk : {"valid", "odd", "binary"}]
Next == UNCHANGED sc
Spec == Init /\ [][Next]_sc
\* the abstract analysis: any answer satisfying TypesOK exists (the predicate is satisfiable for every directory)
Satisfiable == TypesOK(sc.files, IF sc.files \cap DocumentedMarkers = {} THEN <<"generic">> ELSE <<"t">>)
SetToSeq(S) == LET RECURSIVE F(_) F(T) == IF T = {} THEN <<>> ELSE LET x == CHOOSE y \in T : TRUE IN <<x>> \o F(T \ {x}) IN F(S)
DumpS == CSVWrite("%1$s", <<ToJson([files |-> SetToSeq(sc.files), pkg |-> sc.pkg, mk |-> sc.mk])>>, IOEnv.DUMPFILE)
=============================================================================
