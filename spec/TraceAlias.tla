----------------------------- MODULE TraceAlias -----------------------------
(* Sessions of the real binary (`wtf alias ...`) in a scratch home directory, validated against Alias.tla as built. *)
EXTENDS Alias, Json, IOUtils, Sequences
VARIABLE l
Trace == ndJsonDeserialize(IOEnv.TRACEFILE)
Ev == Trace[l]
SeqSet(s) == {s[i] : i \in 1..Len(s)}
N == [id |-> Ev.name, kind |-> Ev.kind, target |-> Ev.target]
\* the recorder lists the home directory after every command: that must be the model's state
Seen == inside' = SeqSet(Ev.inside) /\ there' = Ev.there /\ outside' = SeqSet(Ev.outside)
          /\ last'.ok = Ev.ok /\ last'.touched = SeqSet(Ev.touched) /\ ~Ev.crash
TBegin  == Ev.op = "begin" /\ inside' = {} /\ there' = FALSE /\ outside' = SeqSet(Ev.outside) /\ last' = Ret("init", "", TRUE, {})
TAdd    == Ev.op = "add" /\ Add(N) /\ Seen
TRemove == Ev.op = "remove" /\ Remove(N) /\ Seen
\* the listing is the set of aliases, in name order, each once
TList   == Ev.op = "list" /\ List /\ Seen /\ SeqSet(Ev.listed) = inside /\ Len(Ev.listed) = Cardinality(inside)
TraceInit == l = 1 /\ inside = {} /\ there = FALSE /\ outside = {} /\ last = Ret("init", "", TRUE, {})
TraceNext == l <= Len(Trace) /\ l' = l + 1 /\ (TBegin \/ TAdd \/ TRemove \/ TList)
TraceSpec == TraceInit /\ [][TraceNext]_<<avars, l>>
TraceAccepted ==
    LET d == TLCGet("stats").diameter IN
    IF d - 1 = Len(Trace) THEN TRUE ELSE Print(<<"TRACE_REJECTED_AT", d>>, FALSE)
NoNames == {}
=============================================================================
