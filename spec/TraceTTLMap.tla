----------------------------- MODULE TraceTTLMap -----------------------------
(* Trace validation of the real cache.Cache (TTL map): sequential traces, and concurrent histories with the background
   cleaner as a silent step (linearisability, as in TraceLRUConc) *)
EXTENDS TTLMap, Sequences, Json, IOUtils
VARIABLES l, pend
Trace == ndJsonDeserialize(IOEnv.TRACEFILE)
Ev == Trace[l]
Ths == 1..6
Idle == [st |-> "idle", op |-> "", k |-> 0, v |-> 0, found |-> FALSE, rv |-> 0, n |-> 0]
xvars == <<tvars, l, pend>>
TReset == Ev.kind = "new" /\ TNew(Ev.ttl, Ev.auto) /\ pend' = [t \in Ths |-> Idle] /\ l' = l + 1
TCall == /\ Ev.kind = "call" /\ pend[Ev.t].st = "idle"
         /\ pend' = [pend EXCEPT ![Ev.t] = [Idle EXCEPT !.st = "called", !.op = Ev.op, !.k = Ev.k, !.v = Ev.v, !.n = Ev.n]]
         /\ l' = l + 1 /\ UNCHANGED tvars
Apply(p) == CASE p.op = "get" -> TGet(p.k) [] p.op = "set" -> TSet(p.k, p.v) [] p.op = "delete" -> TDelete(p.k) [] p.op = "clear" -> TClear
              [] p.op = "cleanup" -> TCleanup [] p.op = "size" -> TSize [] p.op = "tick" -> TTick(p.n) [] p.op = "stop" -> TStop
Lin(t) == /\ pend[t].st = "called" /\ Apply(pend[t])
          /\ pend' = [pend EXCEPT ![t] = [@ EXCEPT !.st = "done", !.found = tlast'.found, !.rv = tlast'.v, !.n = tlast'.n]]
          /\ UNCHANGED l
Bg == BgCleanup /\ UNCHANGED <<l, pend>>
TRet2 == /\ Ev.kind = "ret" /\ pend[Ev.t].st = "done" /\ ~Ev.panic
         /\ LET p == pend[Ev.t] IN
              /\ (p.op = "get" => (p.found = Ev.found /\ (Ev.found => p.rv = Ev.rv)))
              /\ (p.op = "size" => p.n = Ev.n)
         /\ pend' = [pend EXCEPT ![Ev.t] = Idle] /\ l' = l + 1 /\ UNCHANGED tvars
TraceInit == /\ l = 1 /\ pend = [t \in Ths |-> Idle] /\ items = <<>> /\ ttl = 1 /\ cleaner = "none" /\ crashed = FALSE
             /\ tlast = TRet("init", 0, NoV, FALSE, 0)
TraceNext == l <= Len(Trace) /\ (TReset \/ TCall \/ TRet2 \/ (\E t \in Ths : Lin(t)) \/ Bg)
TraceSpec == TraceInit /\ [][TraceNext]_xvars
NotDone == l <= Len(Trace)
=============================================================================
