------------------------------- MODULE MCCli -------------------------------
EXTENDS Cli, Json, CSV, IOUtils
SearchScen == [sub : {"search", "implicit"}, args : {"one", "many", "unknownflag"}, query : {"hit", "recover", "none", "padded", "meta", "blank", "long"},
               limit : {"absent", "0", "1", "3", "100", "101", "neg", "abc"}, format : {"absent", "list", "table", "json", "JSON", "bogus"},
               verbose : BOOLEAN, color : {"default", "flag", "env"}, plat : {"none", "windows", "all", "linuxnocross"}, db : {"valid", "missing", "malformed", "default"}]
OtherScen == [sub : {"pipeline", "history", "save", "savep", "alias", "setup", "wizard", "help", "completion"}, args : {"none", "one", "two", "many", "hostile", "unknownflag"},
              query : {"hit"}, limit : {"absent", "3", "abc"}, format : {"absent"}, verbose : BOOLEAN, color : {"default", "env"}, plat : {"none"}, db : {"valid", "default"}]
Init == sc \in SearchScen \cup OtherScen /\ stage = "parse" /\ nres = 0 /\ hist = 0 /\ ended = "running"
Spec == Init /\ [][Next]_clivars
DumpS == (stage = "parse") => CSVWrite("%1$s", <<ToJson(sc)>>, IOEnv.DUMPFILE)
=============================================================================
