-------------------------- MODULE TraceConcSearch --------------------------
(* Concurrent searches answer as if alone; no metric increment is lost.  Events are independent observations. *)
EXTENDS Integers, Sequences, TLC, Json, IOUtils
VARIABLE l
Trace == ndJsonDeserialize(IOEnv.TRACEFILE)
Ev == Trace[l]
TSearch == Ev.op = "csearch" /\ ~Ev.panic /\ Ev.ans = Ev.alone
TOther  == Ev.op = "cother" /\ ~Ev.panic
TTotal  == Ev.op = "ctotal" /\ Ev.total = Ev.want
TOpts   == Ev.op = "coptions" /\ Ev.total = Ev.want      \* the callers' option values (boost maps) are left as they were
TraceInit == l = 1
TraceNext == l <= Len(Trace) /\ l' = l + 1 /\ (TSearch \/ TOther \/ TTotal \/ TOpts)
TraceSpec == TraceInit /\ [][TraceNext]_l
TraceAccepted ==
    LET d == TLCGet("stats").diameter IN
    IF d - 1 = Len(Trace) THEN TRUE ELSE Print(<<"TRACE_REJECTED_AT", d>>, FALSE)
=============================================================================
