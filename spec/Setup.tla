------------------------------- MODULE Setup -------------------------------
(***************************************************************************)
(* X08 - `wtf setup <name>` on a Unix-like system (internal/cli/setup.go). *)
(* Two shell start-up files may exist under the home directory.  A file is *)
(* abstracted to the alias names its lines define, in order (`defs`), and  *)
(* the names it merely mentions (`ment`: a commented-out definition, an    *)
(* `unalias` line).  Setup appends one definition to every existing file   *)
(* that does not have the name yet; it never creates a file, never removes *)
(* or rewrites a line, and touches nothing else.                           *)
(* Design switch Detect: "defines" (a name is there when a line defines    *)
(* it) | "substring" (as built: when the text "alias <name>=" or           *)
(* "alias <name> " occurs anywhere, comments and `unalias` included).      *)
(***************************************************************************)
EXTENDS Integers, Sequences, FiniteSets, TLC
CONSTANTS Files, Names, Detect
VARIABLES sh, last
svars == <<sh, last>>
Range(s) == {s[i] : i \in 1..Len(s)}
Has(f, n) == n \in Range(sh[f].defs) \/ (Detect = "substring" /\ n \in sh[f].ment)

Init == /\ sh \in [Files -> {[there |-> t, defs |-> d, ment |-> m] :
                              t \in BOOLEAN, d \in {<<>>} \cup {<<n>> : n \in Names}, m \in SUBSET Names}]
        /\ \A f \in Files : (~sh[f].there => sh[f].defs = <<>> /\ sh[f].ment = {}) /\ sh[f].ment \cap Range(sh[f].defs) = {}
        /\ last = ""
Run(n) == /\ sh' = [f \in Files |-> IF sh[f].there /\ ~Has(f, n) THEN [sh[f] EXCEPT !.defs = Append(@, n)] ELSE sh[f]]
          /\ last' = n
Next == \E n \in Names : Run(n)
Spec == Init /\ [][Next]_svars

IsPrefix(a, b) == Len(a) <= Len(b) /\ SubSeq(b, 1, Len(a)) = a
AppendOnly    == [][\A f \in Files : IsPrefix(sh[f].defs, sh'[f].defs) /\ sh'[f].ment = sh[f].ment]_svars
NeverCreates  == [][\A f \in Files : sh'[f].there = sh[f].there]_svars
AtMostOnce    == [][\A f \in Files : Len(sh'[f].defs) <= Len(sh[f].defs) + 1
                        /\ (last' \in Range(sh[f].defs) => sh'[f] = sh[f])]_svars          \* running it again changes nothing
DefinedAfter  == [][\A f \in Files : sh[f].there => last' \in Range(sh'[f].defs)]_svars     \* afterwards the alias works in every shell that has a file
=============================================================================
