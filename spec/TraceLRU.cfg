SPECIFICATION TraceSpec
CONSTANTS
  DefaultCap = 100
  TouchOnGet = TRUE
  TouchOnUpdate = TRUE
  ExpireBy = "created"
INVARIANTS Bounded DistinctKeys RecencyOrder
PROPERTIES TraceActionProps
POSTCONDITION TraceAccepted
CHECK_DEADLOCK FALSE
