----------------------------- MODULE CacheLayer -----------------------------
(***************************************************************************)
(* The caching (and monitoring) layer in front of the engine               *)
(* (internal/database/search_cached.go, search_monitored.go,               *)
(* internal/cache/search_cache.go).                                        *)
(*                                                                         *)
(* The property (C05) is one line: Search(q, o) returns Fresh(dbv, q, o),  *)
(* what the uncached engine returns for the current database.  Fresh is    *)
(* uninterpreted: the most discriminating engine, whose answer depends on  *)
(* the database version, the folded query and every option field.          *)
(* Implementation shape: a store keyed by KeyOf(q, o); populate on miss;   *)
(* two switches (cache enabled); invalidate on database replacement.       *)
(* Entries may vanish at any time (capacity eviction, expiry, sweep):      *)
(* action Vanish.  Design switches:                                        *)
(*   KeyFields          the option fields covered by the key (all of them  *)
(*                      in a conforming design)                            *)
(*   InvalidateOnUpdate TRUE | FALSE                                       *)
(*   ServeWhenDisabled  FALSE | TRUE                                       *)
(***************************************************************************)
EXTENDS Integers, Sequences, FiniteSets, TLC
CONSTANTS Fields, KeyFields, InvalidateOnUpdate, ServeWhenDisabled,
          Fold(_)            \* query -> its case/space folded form
VARIABLES store, on, dbv, ret
cvars == <<store, on, dbv, ret>>

Restrict(o, F) == [f \in F |-> o[f]]
KeyOf(q, o)    == <<Fold(q), Restrict(o, KeyFields)>>
Fresh(d, q, o) == <<d, Fold(q), Restrict(o, Fields)>>
NoRet == [op |-> "none", q |-> 0, o |-> <<>>, ans |-> <<>>, hit |-> FALSE]

\* monitored = TRUE: the monitoring wrapper probes the cache once more before searching (no other effect)
Search(q, o, monitored) ==
    LET k == KeyOf(q, o) IN
    IF (on \/ ServeWhenDisabled) /\ k \in DOMAIN store
      THEN /\ ret' = [op |-> "search", q |-> q, o |-> o, ans |-> store[k], hit |-> TRUE]
           /\ UNCHANGED <<store, on, dbv>>
      ELSE /\ ret' = [op |-> "search", q |-> q, o |-> o, ans |-> Fresh(dbv, q, o), hit |-> FALSE]
           /\ \/ on /\ store' = [x \in DOMAIN store \cup {k} |-> IF x = k THEN Fresh(dbv, q, o) ELSE store[x]]
              \/ store' = store                       \* not stored: cache off, empty answer, ...
           /\ UNCHANGED <<on, dbv>>

Vanish == \E k \in DOMAIN store :
            /\ store' = [x \in DOMAIN store \ {k} |-> store[x]]
            /\ ret' = [NoRet EXCEPT !.op = "vanish"] /\ UNCHANGED <<on, dbv>>
Invalidate == store' = <<>> /\ ret' = [NoRet EXCEPT !.op = "invalidate"] /\ UNCHANGED <<on, dbv>>
Enable(b)  == on' = b /\ ret' = [NoRet EXCEPT !.op = "enable", !.hit = b] /\ UNCHANGED <<store, dbv>>
Update(d)  == /\ dbv' = d
              /\ store' = IF InvalidateOnUpdate THEN <<>> ELSE store
              /\ ret' = [NoRet EXCEPT !.op = "update", !.q = d] /\ UNCHANGED on

Transparent == ret.op = "search" => ret.ans = Fresh(dbv, ret.q, ret.o)
NoEntryOutlivesUpdate == \A k \in DOMAIN store : store[k][1] = dbv
=============================================================================
