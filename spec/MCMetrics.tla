---------------------------- MODULE MCMetrics ----------------------------
EXTENDS Metrics
CONSTANTS MaxSteps
VARIABLES steps
xvars == <<mvars, steps>>
MCBuckets == <<1, 3>>
TagPairs == {<<1, 1>>, <<2, 1>>, <<3, 1>>}
TagSets == {{}, {<<1, 1>>}, {<<1, 1>>, <<2, 1>>}, {<<1, 1>>, <<2, 1>>, <<3, 1>>}}
Perms(S) == {p \in UNION {[1..n -> S] : n \in {Cardinality(S)}} : {p[i] : i \in 1..Len(p)} = S}
Idents == {Ident(k, 1, t) : k \in {"counter", "histogram"}, t \in TagSets}
Init == reg = {} /\ cval = <<>> /\ hist = <<>> /\ nSearch = <<0, 0>> /\ nDb = <<>> /\ mlast = [op |-> "init", sid |-> 0]
        /\ steps = 0
Step(A) == steps < MaxSteps /\ steps' = steps + 1 /\ A
Fresh == IF Sids = {} THEN 1 ELSE 1 + CHOOSE m \in Sids : \A x \in Sids : x <= m
UseCounter(id, perm) == \E sid \in Sids \cup {Fresh} : GetOrCreate(id, perm, sid)
Next ==
    \/ Step(\E id \in Idents : \E perm \in Perms(id.tags) : UseCounter(id, perm))
    \/ Step(\E s \in DOMAIN cval : Add(s, 1))
    \/ Step(\E s \in DOMAIN hist, v \in {0, 1, 2, 4} : Observe(s, v))
Spec == Init /\ [][Next]_xvars
=============================================================================
