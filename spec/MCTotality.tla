---------------------------- MODULE MCTotality ----------------------------
EXTENDS Totality, Json, CSV, IOUtils
VARIABLE sc
Init == sc \in [shape : FileShapes, text : TextClasses, query : QueryClasses, opt : OptionClasses, entry : Entries]
Next == UNCHANGED sc
Spec == Init /\ [][Next]_sc
\* the classification is total and exclusive enough to decide every shape
Decides == LoadAllowed(sc.shape) # {} /\ LoadAllowed(sc.shape) \subseteq {"loads", "notfound", "parse", "othererror"}
DumpS == CSVWrite("%1$s", <<ToJson(sc)>>, IOEnv.DUMPFILE)
=============================================================================
