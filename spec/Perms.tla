------------------------------- MODULE Perms -------------------------------
(***************************************************************************)
(* X09 - file modes (internal/validation/permissions.go).  A file is there *)
(* or not and has nine permission bits (a set of bit positions 0..8, bit 1 *)
(* = world-writable, bit 4 = group-writable).  Each kind of file has a     *)
(* wanted mode.  Creating a file asks for the wanted mode, reduced by the  *)
(* process's mask; a file that already exists keeps the mode it has.       *)
(* Design switch Existing: "keep" (as built: writing through the secure    *)
(* writer leaves the mode of an existing file alone) | "reset" (the mode   *)
(* is set to the wanted one on every write).                               *)
(***************************************************************************)
EXTENDS Integers, FiniteSets, TLC
CONSTANTS Kinds, Masks, Existing
VARIABLES there, mode, last
pvars == <<there, mode, last>>
Bits(n) == {i \in 0..8 : (n \div (2 ^ i)) % 2 = 1}
Wanted(k) == Bits(CASE k = "config" -> 384 [] k = "temp" -> 384 [] k = "executable" -> 493 [] k = "directory" -> 493 [] OTHER -> 420)
                 \* 0600, 0600, 0755, 0755, everything else (data and unknown kinds) 0644
CreateWanted(k) == IF k \in {"config", "temp"} THEN Bits(384) ELSE Bits(420)       \* the creating call knows three kinds only
Sensitive(k) == k \in {"config", "temp"}
Verdict(k) == IF ~there THEN "missing" ELSE IF 1 \in mode THEN "world" ELSE IF Sensitive(k) /\ 4 \in mode THEN "group" ELSE "ok"

Init == there = FALSE /\ mode = {} /\ last = "init"
Write(k, mask) == /\ there' = TRUE
                  /\ mode' = IF there /\ Existing = "keep" THEN mode ELSE CreateWanted(k) \ mask
                  /\ last' = <<"write", k>>
Secure(k)  == there /\ mode' = Wanted(k) /\ last' = <<"secure", k>> /\ UNCHANGED there
Chmod(m)   == there /\ mode' = m /\ last' = <<"chmod", "">> /\ UNCHANGED there            \* somebody else changes the mode
Remove     == there /\ there' = FALSE /\ mode' = {} /\ last' = <<"rm", "">>
Next == (\E k \in Kinds, mk \in Masks : Write(k, Bits(mk))) \/ (\E k \in Kinds : Secure(k))
          \/ (\E m \in {Bits(438), Bits(432), Bits(420), Bits(384), Bits(511), Bits(0)} : Chmod(m)) \/ Remove
Spec == Init /\ [][Next]_pvars

\* what a caller relies on
SecureIsAccepted == [][last'[1] = "secure" => (LET k == last'[2] IN ~(1 \in mode') /\ (Sensitive(k) => ~(4 \in mode')))]_pvars
NeverWiderThanWanted == [][last'[1] = "write" /\ ~there => mode' \subseteq CreateWanted(last'[2])]_pvars
\* after the secure writer has written a file of kind k, the validator accepts it as kind k
WrittenIsAccepted == [][last'[1] = "write" => (LET k == last'[2] IN ~(1 \in mode') /\ (Sensitive(k) => ~(4 \in mode')))]_pvars
=============================================================================
