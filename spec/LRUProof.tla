------------------------------ MODULE LRUProof ------------------------------
(* TLAPS proof that inserting a new key never takes the cache above its capacity, for ANY keys, values, capacity and
   lifetime (TLC checks the full invariant for 3 keys; the overwrite branch needs SelectSeq lemmas the installed library lacks). *)
EXTENDS LRU, SequenceTheorems, TLAPS

Entry == [k : Int, v : Int, age : Nat, vage : Nat, aage : Nat]
TypeInv == ents \in Seq(Entry) /\ cap \in Nat /\ ttl \in Nat
BInv == TypeInv /\ Len(ents) <= cap /\ cap >= 1

THEOREM InsertKeepsBound ==
  ASSUME BInv, NEW k \in Int, NEW v \in Int, k \notin Present, Put(k, v)
  PROVE Len(ents') <= cap' /\ cap' >= 1
<1>1. cap' = cap BY DEF Put
<1>2. CASE k \notin Present
  <2> DEFINE e0 == [k |-> k, v |-> v, age |-> 0, vage |-> 0, aage |-> 0]
  <2> DEFINE grown == <<e0>> \o ents
  <2>0. e0 \in Entry BY DEF Entry
  <2>1. grown \in Seq(Entry) /\ Len(grown) = Len(ents) + 1
    BY <2>0 DEF BInv, TypeInv
  <2>2. CASE Len(grown) > cap
    <3>1. ents' = SubSeq(grown, 1, Len(grown) - 1)
      BY <1>2, <2>2 DEF Put
    <3>2. Len(SubSeq(grown, 1, Len(grown) - 1)) = Len(grown) - 1
      BY <2>1, SubSeqProperties DEF BInv, TypeInv
    <3> QED BY <3>1, <3>2, <2>1, <1>1 DEF BInv, TypeInv
  <2>3. CASE ~(Len(grown) > cap)
    <3>1. ents' = grown BY <1>2, <2>3 DEF Put
    <3> QED BY <3>1, <2>1, <2>3, <1>1 DEF BInv, TypeInv
  <2> QED BY <2>2, <2>3
<1> QED BY <1>2
=============================================================================
