------------------------------ MODULE TraceCli ------------------------------
(* Observations of real runs of the wtf binary (one process per event, isolated home, empty working directory, stdin at EOF),
   judged with the scenario predicates of Cli.tla *)
EXTENDS Cli, Json, IOUtils
VARIABLE l
Trace == ndJsonDeserialize(IOEnv.TRACEFILE)
Ev == Trace[l]
S == Ev.sc
IsSearch == S.sub \in SearchSubs
Accepted == IsSearch /\ ~FlagError(S) /\ ArityOK(S) /\ QueryAccepted(S) /\ LimitAccepted(S)
TRun == Ev.op = "run"
    /\ ~Ev.crash                                                     \* every sub-command starts and finishes
    /\ (Accepted =>
          /\ Ev.nres <= LimitInForce(S)
          /\ (S.db = "valid" => Ev.matches)                           \* exactly the engine's results, in rank order
          /\ ((S.format \in {"json", "JSON"} /\ Ev.nres > 0) => Ev.jsonok)
          /\ Ev.histdelta = 1 /\ Ev.histlast                          \* one newest history entry, for this query
          /\ Ev.histcount = Ev.nres)                                  \* ... and for this answer
    \* the same search repeated at once with --limit 1: the newest entry describes the repetition, nothing else is added
    /\ (Ev.rep => (Ev.rephistlen \in {1, 2} /\ Ev.rephistlast /\ Ev.rephistcount = Ev.repnres /\ Ev.repnres <= 1))
    /\ ((IsSearch /\ ~Accepted) => (Ev.nres = 0 /\ Ev.histdelta = 0))
    /\ (~IsSearch => Ev.histdelta = 0)
    /\ (S.color \in {"flag", "env"} => ~Ev.esc)                        \* no terminal escape sequences when colour is off
\* the stage variables of Cli.tla are not used when judging observations
TraceInit == l = 1 /\ sc = <<>> /\ stage = "obs" /\ nres = 0 /\ hist = 0 /\ ended = "obs"
TraceNext == l <= Len(Trace) /\ l' = l + 1 /\ TRun /\ UNCHANGED clivars
TraceSpec == TraceInit /\ [][TraceNext]_<<l, clivars>>
TraceAccepted ==
    LET d == TLCGet("stats").diameter IN
    IF d - 1 = Len(Trace) THEN TRUE ELSE Print(<<"TRACE_REJECTED_AT", d>>, FALSE)
=============================================================================
