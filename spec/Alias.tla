------------------------------- MODULE Alias -------------------------------
(***************************************************************************)
(* X07 - `wtf alias add | list | remove` (internal/cli/alias.go).  The     *)
(* aliases are the plain files of one directory under the home directory;  *)
(* `inside` is that set, `there` says whether the directory exists,        *)
(* `outside` is every other file under the home directory.  A name is      *)
(* classified by where "directory/name" points, by path arithmetic alone:  *)
(*   plain    a file directly in the alias directory                       *)
(*   nested   deeper inside it (the intermediate directory does not exist) *)
(*   self     the alias directory itself ("" and ".")                      *)
(*   escape   a place outside the alias directory ("../x")                 *)
(*   flag     the command line parser takes it for an option               *)
(* Design switch Names: "confined" (only plain names are acted upon) |     *)
(* "asbuilt" (the name is joined to the directory unchecked).              *)
(***************************************************************************)
EXTENDS Integers, FiniteSets, TLC
CONSTANTS Names,            \* set of [id, kind, target] (target: where an escape name points, relative to home)
          Seeded,           \* files that exist outside the alias directory at the start
          Names_
VARIABLES inside, there, outside, last
avars == <<inside, there, outside, last>>
Ret(op, n, ok, touched) == [op |-> op, n |-> n, ok |-> ok, touched |-> touched]

Init == inside = {} /\ there = FALSE /\ outside = Seeded /\ last = Ret("init", "", TRUE, {})

Acts(n) == n.kind = "plain" \/ (Names_ = "asbuilt" /\ n.kind \in {"escape", "self"})

Add(n) ==
    /\ IF n.kind = "flag" THEN UNCHANGED <<inside, there, outside>> /\ last' = Ret("add", n.id, FALSE, {})
       ELSE /\ there' = TRUE                                          \* the directory is made first, whatever the name
            /\ CASE n.kind = "plain" -> inside' = inside \cup {n.id} /\ UNCHANGED outside /\ last' = Ret("add", n.id, TRUE, {})
                 [] n.kind = "escape" /\ Names_ = "asbuilt" ->
                        outside' = outside \cup {n.target} /\ UNCHANGED inside /\ last' = Ret("add", n.id, TRUE, {n.target})
                 [] OTHER -> UNCHANGED <<inside, outside>> /\ last' = Ret("add", n.id, FALSE, {})
Remove(n) ==
    CASE n.kind = "plain" /\ n.id \in inside ->
            inside' = inside \ {n.id} /\ UNCHANGED <<there, outside>> /\ last' = Ret("remove", n.id, TRUE, {})
      [] n.kind = "escape" /\ Names_ = "asbuilt" /\ n.target \in outside ->
            outside' = outside \ {n.target} /\ UNCHANGED <<inside, there>> /\ last' = Ret("remove", n.id, TRUE, {n.target})
      [] n.kind = "self" /\ Names_ = "asbuilt" /\ there /\ inside = {} ->          \* an empty directory can be removed like a file
            there' = FALSE /\ UNCHANGED <<inside, outside>> /\ last' = Ret("remove", n.id, TRUE, {})
      [] OTHER -> UNCHANGED <<inside, there, outside>> /\ last' = Ret("remove", n.id, FALSE, {})
List == UNCHANGED <<inside, there, outside>> /\ last' = Ret("list", "", TRUE, {})
Next == (\E n \in Names : Add(n) \/ Remove(n)) \/ List
Spec == Init /\ [][Next]_avars

\* what a user relies on
Confined       == [][outside' = outside /\ last'.touched = {}]_avars          \* nothing outside the alias directory is written or deleted
OnlyTheNamed   == [][\A x \in (inside \ inside') \cup (inside' \ inside) : x = last'.n]_avars
AddedIsListed  == [][last'.op = "add" /\ last'.ok /\ (\E n \in Names : n.id = last'.n /\ n.kind = "plain") => last'.n \in inside']_avars
DirKept        == [][there => there']_avars                                   \* no command removes the alias directory
NeedsDir       == inside # {} => there
=============================================================================
