--------------------------- MODULE TraceHistory ---------------------------
(* Trace validation of executions recorded from the real history.SearchHistory *)
EXTENDS History, Json, IOUtils
VARIABLE l
Trace == ndJsonDeserialize(IOEnv.TRACEFILE)
Ev == Trace[l]
tvars == <<hvars, l>>

Pairs(s) == [i \in 1..Len(s) |-> [q |-> s[i][1], id |-> s[i][2]]]
ObsEnts == Pairs(Ev.ents)
Obs == ents' = ObsEnts /\ max' = Ev.max
       /\ \A i \in 1..(Len(Ev.ranks) - 1) : Ev.ranks[i] <= Ev.ranks[i + 1]      \* chronological
RO == UNCHANGED hvars

TNew   == Ev.op = "new" /\ New(Ev.maxreq, Ev.max) /\ Obs
TSet   == Ev.op = "setfile" /\ SetFile([cls |-> Ev.fcls, ents |-> Pairs(Ev.fents), max |-> Ev.fmax]) /\ Obs
TAdd   == Ev.op = "add" /\ ~Ev.panic /\ Ev.fresh /\ (\E b \in {max} \cup 1..(Len(ents) + 1) : AddB(Ev.q, Ev.id, b)) /\ Obs
TSave  == Ev.op = "save" /\ Ev.ok /\ Save /\ Obs
TLoad  == Ev.op = "load" /\ ~Ev.panic /\ LoadTo(ObsEnts, Ev.max) /\ (file.cls # "garbage" => last'.ok = Ev.ok) /\ Obs
TClear == Ev.op = "clear" /\ Clear /\ Obs
TRecent == Ev.op = "recent" /\ Ev.res = RecentOf(ents, Ev.n) /\ RO
TTop   == Ev.op = "top" /\ TopOK(Ev.res, ents, Ev.n)
              /\ (Ev.n >= Cardinality(Queries(ents)) => SumCounts(Ev.res) = Len(ents)) /\ RO
\* entries whose query contains a pattern: exactly those of the log (as a bag), and the log itself is left alone
Bag(s) == [x \in {s[i] : i \in 1..Len(s)} |-> Cardinality({i \in 1..Len(s) : s[i] = x})]
TPattern == Ev.op = "pattern"
              /\ Bag(Pairs(Ev.res)) = Bag(SelectSeq(ents, LAMBDA e : e.q \in {Ev.mq[i] : i \in 1..Len(Ev.mq)}))
              /\ ObsEnts = ents /\ RO
TStats == Ev.op = "stats" /\ Ev.total = Len(ents) /\ Ev.unique = Cardinality(Queries(ents)) /\ RO

TraceInit == l = 1 /\ ents = <<>> /\ max = 1 /\ file = NoFile("missing") /\ crashed = FALSE /\ last = HRet("init", 0, TRUE, 0)
TraceNext == l <= Len(Trace) /\ l' = l + 1
             /\ (TNew \/ TSet \/ TAdd \/ TSave \/ TLoad \/ TClear \/ TRecent \/ TTop \/ TPattern \/ TStats)
TraceSpec == TraceInit /\ [][TraceNext]_tvars
TraceAccepted ==
    LET d == TLCGet("stats").diameter IN
    IF d - 1 = Len(Trace) THEN TRUE ELSE Print(<<"TRACE_REJECTED_AT", d>>, FALSE)
=============================================================================
