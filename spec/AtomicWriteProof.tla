------------------------- MODULE AtomicWriteProof -------------------------
(* TLAPS proof that the temp-file + rename design keeps the target intact in every reachable state, for any behaviour
   of the environment (crashes and failed steps anywhere), not only the ones TLC enumerates. *)
EXTENDS AtomicWrite, TLAPS

ASSUME ModeAssumption == WriteMode = "tmp+rename"

Inv == target \in {Old, "new"} /\ wrote \in {"none", "tmp"}

THEOREM Safety == ASpec => []Intact
<1>1. AInit => Inv
  BY DEF AInit, Inv
<1>2. Inv /\ [ANext]_avars => Inv'
  <2> SUFFICES ASSUME Inv, [ANext]_avars PROVE Inv'
    OBVIOUS
  <2>1. CASE OpenTrunc BY <2>1, ModeAssumption DEF OpenTrunc, Inv
  <2>2. CASE OpenTmp BY <2>2 DEF OpenTmp, Inv, Old
  <2>3. CASE Write BY <2>3 DEF Write, Inv, Old, Next3
  <2>4. CASE Sync BY <2>4 DEF Sync, Inv, avars, Old
  <2>5. CASE Close BY <2>5 DEF Close, Inv, Old
  <2>6. CASE Rename BY <2>6 DEF Rename, Inv, Old
  <2>7. CASE FinishInPlace BY <2>7 DEF FinishInPlace, Inv, Old
  <2>8. CASE Cleanup BY <2>8 DEF Cleanup, Inv, Old
  <2>9. CASE Fail BY <2>9 DEF Fail, Inv, Old
  <2>10. CASE Crash BY <2>10 DEF Crash, Inv, Old
  <2>11. CASE UNCHANGED avars BY <2>11 DEF avars, Inv, Old
  <2> QED BY <2>1, <2>2, <2>3, <2>4, <2>5, <2>6, <2>7, <2>8, <2>9, <2>10, <2>11 DEF ANext
<1>3. Inv => Intact
  BY DEF Inv, Intact
<1>4. QED
  BY <1>1, <1>2, <1>3, PTL DEF ASpec
=============================================================================
