----------------------------- MODULE ConfigPath -----------------------------
(***************************************************************************)
(* X04 - which database file a command reads, and which settings are       *)
(* accepted (internal/config).  The file system is the set of names that   *)
(* exist (os.Stat succeeds: a directory counts); the configured name is    *)
(* tried first, then a fixed, ordered list of fall-back names; if nothing  *)
(* exists the configured name comes back unchanged so that the loader can  *)
(* report it.  Files appear and disappear between resolutions.             *)
(***************************************************************************)
EXTENDS Integers, Sequences, FiniteSets
CONSTANTS Names,        \* every name that may exist
          Fallbacks,    \* the ordered fall-back list (a sequence of names; repetitions allowed)
          Order         \* "listed": first existing entry of Fallbacks | "last": design switch, the last one
VARIABLES exists, configured, got
cvars == <<exists, configured, got>>

First(S) == CHOOSE i \in S : \A j \in S : i <= j
Last(S)  == CHOOSE i \in S : \A j \in S : i >= j
Hits(ex) == {i \in 1..Len(Fallbacks) : Fallbacks[i] \in ex}
Resolve(cfgd, ex) ==
    IF cfgd \in ex THEN cfgd
    ELSE IF Hits(ex) = {} THEN cfgd
    ELSE Fallbacks[IF Order = "listed" THEN First(Hits(ex)) ELSE Last(Hits(ex))]

\* settings: 1..100 results, a non-empty database name
Valid(maxResults, dbName) == maxResults >= 1 /\ maxResults <= 100 /\ dbName # ""

Init    == exists = {} /\ configured \in Names /\ got = "none"
Touch(n) == n \notin exists /\ exists' = exists \cup {n} /\ UNCHANGED <<configured, got>>
Remove(n) == n \in exists /\ exists' = exists \ {n} /\ UNCHANGED <<configured, got>>
Configure(n) == configured' = n /\ UNCHANGED <<exists, got>>
Ask     == got' = Resolve(configured, exists) /\ UNCHANGED <<exists, configured>>
Next    == (\E n \in Names : Touch(n) \/ Remove(n) \/ Configure(n)) \/ Ask
Spec    == Init /\ [][Next]_cvars

FallbackNames == {Fallbacks[i] : i \in 1..Len(Fallbacks)}
\* what a user relies on
ConfiguredWins  == [][got' # got /\ configured \in exists => got' = configured]_cvars
AnswerFresh     == [][got' # got => /\ got' \in {configured} \cup FallbackNames
                                   /\ (({configured} \cup FallbackNames) \cap exists # {} => got' \in exists)
                                   /\ (got' \notin exists => got' = configured)]_cvars
\* the earliest listed fall-back that exists is the one taken
Earliest        == [][got' # got /\ configured \notin exists /\ Hits(exists) # {} =>
                         \A i \in Hits(exists) : \E j \in 1..i : Fallbacks[j] = got']_cvars
\* resolving again from the answer gives the same answer
Stable          == \A c \in Names, ex \in SUBSET Names : Resolve(Resolve(c, ex), ex) = Resolve(c, ex)
=============================================================================
