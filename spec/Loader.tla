------------------------------ MODULE Loader ------------------------------
(***************************************************************************)
(* Fault-tolerant database loading (internal/recovery: loadWithRetry +     *)
(* fallback ladder, internal/database/loader.go).                          *)
(* cfg: faults of the main and personal file and the retry configuration.  *)
(* One action per step of the retry loop: Attempt, Retry(d) (= classify as *)
(* retryable + sleep d), GiveUp (= classify as final or budget exhausted), *)
(* Return.  What C15 leaves open: how many of the allowed retries are      *)
(* actually made and the values of the waits (only their monotonicity and  *)
(* the cap are fixed).                                                     *)
(* Design switches: Classifier "unwrap" | "shallow" (does not see a        *)
(* not-found cause through the error wrapper => retries a missing file);   *)
(* MinOne TRUE | FALSE (a configured attempt count < 1 still tries once).  *)
(***************************************************************************)
EXTENDS Integers, Sequences, TLC
CONSTANTS Classifier, MinOne
VARIABLES cfg, pc, att, delays, res
lvars == <<cfg, pc, att, delays, res>>

Loads(f)   == f \in {"ok", "empty", "utf16"}       \* "utf16": a well-formed list saved as UTF-16 with a byte-order mark
MainOK     == Loads(cfg.main)
\* cfg.heal = k >= 1: the environment repairs the file that fails during the wait that follows attempt k (a transient
\* fault: an editor finishing its write, a mount appearing); 0: the faults are permanent
HealedAt(n)  == cfg.heal >= 1 /\ n > cfg.heal
EffMain(n)   == IF ~MainOK /\ HealedAt(n) THEN "ok" ELSE cfg.main
EffPers(n)   == IF MainOK /\ HealedAt(n) THEN "ok" ELSE cfg.personal
\* does attempt number n find loadable files, and if not, which file's fault is reported?
SucceedsAt(n) == Loads(EffMain(n)) /\ (Loads(EffPers(n)) \/ EffPers(n) = "missing")
FailingAt(n)  == IF Loads(EffMain(n)) THEN EffPers(n) ELSE EffMain(n)
Succeeds   == SucceedsAt(att)
Failing    == FailingAt(att)
Final(f)   == f = "perm" \/ (f = "missing" /\ Classifier = "unwrap")
EffMax     == IF cfg.maxatt >= 1 THEN cfg.maxatt ELSE (IF MinOne THEN 1 ELSE 0)
NoRes      == [kind |-> "none", err |-> FALSE]

Start(c) ==
    /\ cfg' = c /\ att' = 0 /\ delays' = <<>> /\ res' = NoRes
    /\ pc' = IF (IF c.maxatt >= 1 THEN c.maxatt ELSE (IF MinOne THEN 1 ELSE 0)) >= 1 THEN "try" ELSE "fallback"

Attempt ==
    /\ pc = "try"
    /\ att' = att + 1
    /\ pc' = IF SucceedsAt(att + 1) THEN "loaded" ELSE "failed"
    /\ UNCHANGED <<cfg, delays, res>>

Retry(d) ==
    /\ pc = "failed" /\ ~Final(Failing) /\ att < EffMax
    /\ d >= 0 /\ d <= cfg.cap
    /\ (Len(delays) > 0 => d >= delays[Len(delays)])
    /\ delays' = Append(delays, d)
    /\ pc' = "try"
    /\ UNCHANGED <<cfg, att, res>>

GiveUp ==
    /\ pc = "failed"
    /\ pc' = "fallback"
    /\ UNCHANGED <<cfg, att, delays, res>>

\* a usable database and no error: the real one after a successful attempt, a built-in one otherwise
ReturnFrom(p, kind, err) ==
    /\ p \in {"loaded", "fallback"}
    /\ kind = IF p = "loaded" THEN "real" ELSE IF att = 0 /\ ~MinOne THEN "nil" ELSE "builtin"
    /\ err = FALSE
    /\ res' = [kind |-> kind, err |-> err]
    /\ pc' = "done"
    /\ UNCHANGED <<cfg, att, delays>>
Return(kind, err) == ReturnFrom(pc, kind, err)

---------------------------------------------------------------------------
(* Properties (C15), evaluated when pc = "done" *)
Done == pc = "done"
Usable       == Done => (res.kind \in {"real", "builtin"} /\ ~res.err)
RealIffLoads == Done => (res.kind = "real" <=> Succeeds)
\* no attempt follows one that failed on a missing or permission-denied file (with permanent faults: att = 1)
NoFutileRetry == Done => \A n \in 1..(att - 1) : ~(~SucceedsAt(n) /\ FailingAt(n) \in {"missing", "perm"})
AttemptBudget == Done => (att >= 1 /\ att <= (IF cfg.maxatt >= 1 THEN cfg.maxatt ELSE 1))
WaitsOK == /\ \A i \in 1..Len(delays) : delays[i] <= cfg.cap
           /\ \A i \in 1..(Len(delays) - 1) : delays[i] <= delays[i + 1]
           /\ (Done => Len(delays) = att - 1 \/ (att = 0 /\ Len(delays) = 0))
=============================================================================
