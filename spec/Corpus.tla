------------------------------ MODULE Corpus ------------------------------
(***************************************************************************)
(* Documents (command entries) by the attributes the filter properties     *)
(* talk about, and the eligibility predicates of C04 transcribed from the  *)
(* statement.  Used by SearchFlow (model) and TraceSearch (observations).  *)
(*                                                                         *)
(* A document's platform class, relative to the platforms in force:        *)
(*   "none"     declares no platform                                       *)
(*   "inforce"  some declared platform is, or is a documented alias of, a  *)
(*              platform in force                                          *)
(*   "cross"    not in force, but tagged cross-platform                    *)
(*   "tool"     not in force, not tagged, but a recognised cross-platform  *)
(*              tool                                                       *)
(*   "foreign"  declares platforms, none in force, no tag, no tool         *)
(*   "unknown"  cannot be classified by the harness (never checked)        *)
(***************************************************************************)
EXTENDS Integers, Sequences, FiniteSets

Hosts == {"linux", "macos", "windows"}

\* documented aliases (README / checkPlatformVariant): declared name -> platform it stands for
AliasOf(decl) ==
    CASE decl \in {"linux", "unix", "bash", "zsh"} -> "linux"
      [] decl \in {"macos", "darwin"} -> "macos"
      [] decl \in {"windows", "cmd", "powershell"} -> "windows"
      [] OTHER -> "other"

\* o: options record with fields allplat, plats (set of platforms asked for), nocross, ponly; host: the host platform
InForce(o, host) == IF o.plats = {} THEN {host} ELSE o.plats

\* decls: the set of declared platform names of a document (lower-cased), tool: recognised tool
PlatClass(decls, tool, o, host) ==
    IF decls = {} THEN "none"
    ELSE IF \E d \in decls : AliasOf(d) \in InForce(o, host) THEN "inforce"
    ELSE IF "cross-platform" \in decls THEN "cross"
    ELSE IF tool THEN "tool" ELSE "foreign"

PlatformOK(cls, o) ==
    \/ o.allplat
    \/ cls \in {"none", "inforce", "unknown"}
    \/ (~o.nocross /\ cls \in {"cross", "tool"})

PipelineOK(ispipe, o) == o.ponly => ispipe
=============================================================================
