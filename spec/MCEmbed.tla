------------------------------ MODULE MCEmbed ------------------------------
EXTENDS Embed, Json, CSV, IOUtils
Files == [header : BOOLEAN, claimed : {0, 1, 2, 3, 1000000}, present : {0, 1, 2, 3}, tail : {"none", "partial"}]
Init == file \in Files /\ pc = "start" /\ read = 0 /\ alloc = 0 /\ outcome = "none"
Spec == Init /\ [][Next]_evars
DumpS == (pc = "start") => CSVWrite("%1$s", <<ToJson(file)>>, IOEnv.DUMPFILE)
=============================================================================
