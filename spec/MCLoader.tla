----------------------------- MODULE MCLoader -----------------------------
EXTENDS Loader, Json, CSV, IOUtils
Faults == {"ok", "missing", "perm", "isdir", "malformed", "empty", "utf16"}
Cfgs == [main : Faults, personal : Faults, maxatt : {-1, 0, 1, 2, 3, 4}, base : {0, 1, 2}, factor : {1, 2, 3}, cap : {1, 3, 50}, heal : {0, 1, 2}]
Init == cfg \in Cfgs /\ att = 0 /\ delays = <<>> /\ res = NoRes
        /\ pc = IF EffMax >= 1 THEN "try" ELSE "fallback"
Next == Attempt \/ GiveUp \/ (\E d \in 0..3 : Retry(d)) \/ (\E k \in {"real", "builtin", "nil"} : Return(k, FALSE))
Spec == Init /\ [][Next]_lvars
\* scenario dump: one line per initial configuration
DumpS == (att = 0 /\ pc \in {"try", "fallback"}) => CSVWrite("%1$s", <<ToJson(cfg)>>, IOEnv.DUMPFILE)
=============================================================================
