---------------------------- MODULE MCNotebook ----------------------------
EXTENDS Notebook, Json, CSV, IOUtils
CONSTANTS MaxSteps
VARIABLE steps
E(c, v) == [c |-> c, e |-> 10 * c + v]
Entries == {E(c, v) : c \in {1, 2, 3}, v \in {1, 2}}
Inits == {[cls |-> "missing", ents |-> <<>>], [cls |-> "garbage", ents |-> <<>>]} \cup
         {List(s) : s \in {<<>>, <<E(1, 1)>>, <<E(2, 1), E(1, 1)>>, <<E(1, 1), E(3, 2), E(1, 2)>>}}
Init == file \in Inits /\ last = [op |-> "set", ok |-> TRUE, e |-> [c |-> 0, e |-> 0]] /\ steps = 0
Next == steps < MaxSteps /\ steps' = steps + 1 /\ \E e \in Entries : SaveOK(e) \/ (file.cls = "garbage" /\ SaveFail(e))
Spec == Init /\ [][Next]_<<nvars, steps>>
Props == [][Faithful /\ NeighboursKept /\ NoNewDuplicate /\ FailureKeepsFile]_<<nvars, steps>>
FJ(f) == [cls |-> f.cls, ents |-> [i \in 1..Len(f.ents) |-> <<f.ents[i].c, f.ents[i].e>>]]
DumpT == CSVWrite("%1$s", <<ToJson([from |-> [file |-> FJ(file), steps |-> steps], op |-> [c |-> last'.e.c, e |-> last'.e.e], to |-> [file |-> FJ(file'), steps |-> steps']])>>, IOEnv.DUMPFILE)
=============================================================================
