------------------------------ MODULE MCTTLMap ------------------------------
EXTENDS TTLMap
CONSTANTS MaxSteps
VARIABLE steps
Init == items = <<>> /\ ttl \in {1, 2} /\ cleaner \in {"none", "running"} /\ crashed = FALSE /\ tlast = TRet("new", 0, NoV, FALSE, 0) /\ steps = 0
Step(A) == steps < MaxSteps /\ steps' = steps + 1 /\ A
Next == \/ Step(\E k \in {1, 2}, v \in {1, 2} : TSet(k, v))
        \/ Step(\E k \in {1, 2} : TGet(k) \/ TDelete(k))
        \/ Step(TClear) \/ Step(TCleanup) \/ Step(TSize) \/ Step(TTick(1)) \/ Step(TStop)
        \/ (BgCleanup /\ UNCHANGED steps)
Spec == Init /\ [][Next]_<<tvars, steps>>
=============================================================================
