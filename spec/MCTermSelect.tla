---------------------------- MODULE MCTermSelect ----------------------------
EXTENDS TermSelect
CONSTANTS MaxUser
Syms == 1..5
MCIdf(t) == IF t = 5 THEN 0 ELSE t         \* symbol 5 is unknown to the index
Extras == {<<>>, <<6>>, <<1, 6>>, <<6, 7, 8>>, <<2, 6, 7, 8, 9>>}
Init == /\ user \in UNION {[1..n -> Syms] : n \in 0..MaxUser} /\ extra \in Extras
        /\ terms = <<>> /\ stage = "analysed"
Spec == Init /\ [][Next]_tsvars
=============================================================================
