------------------------------ MODULE Monitor ------------------------------
(***************************************************************************)
(* X06 - the performance monitor's switch and the derived figures of its   *)
(* report (internal/metrics/performance.go).  While switched off nothing   *)
(* is recorded.  A report derives from what was recorded: the cache hit    *)
(* ratio, the mean search time, searches per second (as a total: rate x    *)
(* uptime) and the size of the last answer.                                *)
(* Design switch Export:                                                   *)
(*   "designed"  every recorded series reaches the report                  *)
(*   "asbuilt"   timer series are not exported (the mean search time has   *)
(*               nothing to work with) and series that differ only in a    *)
(*               tag overwrite one another by name (the rate sees the hit  *)
(*               series or the miss series, not their sum)                 *)
(***************************************************************************)
EXTENDS Integers, FiniteSets, TLC
CONSTANTS Export, MaxOps
VARIABLES on, hits, misses, durMs, lastRes, ops, rep
mvars == <<on, hits, misses, durMs, lastRes, ops, rep>>
NoRep == [ratioNum |-> 0, ratioDen |-> 0, avgSum |-> 0, avgCount |-> 0, rateTotal |-> 0, results |-> 0]

Init == on = TRUE /\ hits = 0 /\ misses = 0 /\ durMs = 0 /\ lastRes = 0 /\ ops = 0 /\ rep = NoRep
Enable(b) == on' = b /\ ops' = ops + 1 /\ UNCHANGED <<hits, misses, durMs, lastRes, rep>>
Search(hit, ms, nres) ==
    /\ ops' = ops + 1
    /\ IF on THEN /\ hits' = hits + (IF hit THEN 1 ELSE 0) /\ misses' = misses + (IF hit THEN 0 ELSE 1)
                  /\ durMs' = durMs + ms /\ lastRes' = nres
             ELSE UNCHANGED <<hits, misses, durMs, lastRes>>
    /\ UNCHANGED <<on, rep>>
\* what the rate is computed from
RateTotals == IF Export = "designed" \/ (hits = 0 /\ misses = 0) THEN {hits + misses}
              ELSE {x \in {hits, misses} : x > 0}
Report(rt) ==
    /\ rt \in RateTotals
    /\ rep' = [ratioNum |-> hits, ratioDen |-> hits + misses,
               avgSum |-> IF Export = "designed" THEN durMs ELSE 0,
               avgCount |-> IF Export = "designed" THEN hits + misses ELSE 0,
               rateTotal |-> rt, results |-> lastRes]
    /\ ops' = ops + 1 /\ UNCHANGED <<on, hits, misses, durMs, lastRes>>
Next == ops < MaxOps /\ (\/ \E b \in BOOLEAN : Enable(b)
                         \/ \E h \in BOOLEAN, ms \in {0, 3}, n \in {0, 2} : Search(h, ms, n)
                         \/ \E rt \in 0..MaxOps : Report(rt))
Spec == Init /\ [][Next]_mvars

\* what a reader of the report relies on
SilentWhileOff == [][~on => UNCHANGED <<hits, misses, durMs, lastRes>>]_mvars
RatioExact     == rep.ratioNum <= rep.ratioDen
RateCountsAll  == [][rep' # rep => rep'.rateTotal = hits + misses]_mvars
MeanIsMean     == [][rep' # rep => rep'.avgSum = durMs /\ rep'.avgCount = hits + misses]_mvars
=============================================================================
