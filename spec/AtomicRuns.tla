----------------------------- MODULE AtomicRuns -----------------------------
(***************************************************************************)
(* Two consecutive writer runs on the same file (C09, "everything saved    *)
(* earlier remains loadable after any such event"): run 1 replaces the old *)
(* content by A and may be killed at any step, leaving its temporary file  *)
(* behind; run 2 then replaces what it finds by a shorter content B and is *)
(* not disturbed.  AtomicWrite.tla covers one run from a clean directory;  *)
(* this module adds what a run inherits from an interrupted predecessor.   *)
(*   target : "old" | "A" | "B" | "mixed"                                  *)
(*   tmp    : "none" | "empty" | "partA" | "fullA" | "partB" | "fullB" |   *)
(*            "mixed" (bytes of B followed by left-over bytes of A)        *)
(* Design switch TmpOpen: "fresh" (a new name, or O_EXCL / O_TRUNC: the    *)
(* temporary file starts empty) | "keep" (a fixed name opened without      *)
(* truncation: run 2 writes into whatever run 1 left).                     *)
(***************************************************************************)
EXTENDS Naturals
CONSTANT TmpOpen
VARIABLES target, tmp, run, pc
rvars == <<target, tmp, run, pc>>

RInit == target = "old" /\ tmp = "none" /\ run = 1 /\ pc = "start"

Open == /\ pc = "start"
        /\ tmp' = IF TmpOpen = "fresh" \/ tmp = "none" THEN "empty" ELSE tmp
        /\ pc' = "open" /\ UNCHANGED <<target, run>>
\* one write call of the running writer: some or all of the remaining bytes
WriteA == /\ run = 1 /\ pc = "open" /\ tmp \in {"empty", "partA"}
          /\ tmp' \in {"partA", "fullA"} /\ UNCHANGED <<target, run, pc>>
WriteB == /\ run = 2 /\ pc = "open"
          /\ \/ tmp \in {"empty", "partB"} /\ tmp' \in {"partB", "fullB"}
             \/ tmp \in {"partA", "fullA", "mixed"} /\ tmp' = "mixed"     \* B is shorter: the tail of A stays
          /\ UNCHANGED <<target, run, pc>>
Complete == (run = 1 /\ tmp = "fullA") \/ (run = 2 /\ tmp \in {"fullB", "mixed"})   \* the writer has written all its bytes
Rename == /\ pc = "open" /\ Complete
          /\ target' = (IF tmp = "fullA" THEN "A" ELSE IF tmp = "fullB" THEN "B" ELSE "mixed")
          /\ tmp' = "none" /\ pc' = "done" /\ UNCHANGED run
\* the environment kills run 1 at any point; its temporary file stays
Kill == run = 1 /\ pc \in {"start", "open"} /\ pc' = "dead" /\ UNCHANGED <<target, tmp, run>>
NextRun == run = 1 /\ pc \in {"done", "dead"} /\ run' = 2 /\ pc' = "start" /\ UNCHANGED <<target, tmp>>

RNext == Open \/ WriteA \/ WriteB \/ Rename \/ Kill \/ NextRun
RSpec == RInit /\ [][RNext]_rvars

NeverMixed == target \in {"old", "A", "B"}
SecondRunTakesEffect == (run = 2 /\ pc = "done") => target = "B"
=============================================================================
