----------------------------- MODULE Context -----------------------------
(***************************************************************************)
(* Project context detection (internal/context/analyzer.go) as far as C13  *)
(* fixes it: the analysis is a function of the directory listing; every    *)
(* project type is reported at most once; "generic" is reported exactly    *)
(* when nothing is recognised; boosts are finite and at least 1.           *)
(* Which file names are markers is the code's business, except that the    *)
(* documented ones below must be recognised and made-up names must not.    *)
(***************************************************************************)
EXTENDS Integers, Sequences, FiniteSets, TLC
DocumentedMarkers == {".git", "Dockerfile", "package.json", "go.mod", "Cargo.toml", "requirements.txt", "pom.xml", "Makefile",
                      "main.tf", "Gemfile", "composer.json", "CMakeLists.txt"}
Decoys == {"zzq-notes.xyz", "README.zzq"}

\* types: the reported sequence of project types for a directory holding the files `dir`
TypesOK(dir, types) ==
    /\ Len(types) >= 1
    /\ \A i, j \in 1..Len(types) : types[i] = types[j] => i = j                   \* each type at most once
    /\ ("generic" \in {types[i] : i \in 1..Len(types)}) => Len(types) = 1           \* generic only alone
    /\ (dir \cap DocumentedMarkers # {}) => types # <<"generic">>                   \* something documented is recognised
    /\ (dir \subseteq Decoys) => types = <<"generic">>                              \* nothing recognisable
\* boosts reported as thousandths; -1 encodes NaN/Inf
BoostsOK(bs) == \A i \in 1..Len(bs) : bs[i] >= 1000
=============================================================================
