---------------------------- MODULE TraceLoader ----------------------------
(* Trace validation of LoadDatabaseWithFallback runs (attempts and waits observed through the verif hook) *)
EXTENDS Loader, Json, IOUtils
VARIABLE l
Trace == ndJsonDeserialize(IOEnv.TRACEFILE)
Ev == Trace[l]
tvars == <<lvars, l>>
TStart   == Ev.op = "start" /\ Start([main |-> Ev.main, personal |-> Ev.personal, maxatt |-> Ev.maxatt, cap |-> Ev.cap, heal |-> Ev.heal])
TAttempt == Ev.op = "attempt" /\ Attempt /\ att' = Ev.n
TDelay   == Ev.op = "delay" /\ Retry(Ev.d)
\* the classification step is not logged: GiveUp is composed into the return
TRet     == Ev.op = "ret" /\ Ev.searchok /\ ReturnFrom(IF pc = "failed" THEN "fallback" ELSE pc, Ev.kind, Ev.err)
\* the command line: with the configured path absent and a good file at a documented fall-back location, the search runs
\* on that file (its entries are found) followed by the notebook's entries when there is one
TCliPath == Ev.op = "clipath" /\ Ev.found /\ (Ev.haspers => Ev.foundpers) /\ UNCHANGED lvars
TraceInit == l = 1 /\ cfg = [main |-> "ok", personal |-> "ok", maxatt |-> 1, cap |-> 0, heal |-> 0] /\ pc = "init" /\ att = 0 /\ delays = <<>> /\ res = NoRes
TraceNext == l <= Len(Trace) /\ l' = l + 1 /\ (TStart \/ TAttempt \/ TDelay \/ TRet \/ TCliPath)
TraceSpec == TraceInit /\ [][TraceNext]_tvars
TraceAccepted ==
    LET d == TLCGet("stats").diameter IN
    IF d - 1 = Len(Trace) THEN TRUE ELSE Print(<<"TRACE_REJECTED_AT", d>>, FALSE)
\* every trace must end with a return: checked as "a start only follows a done"
StartAfterDone == [][(Ev.op = "start") => pc \in {"done", "init"}]_tvars
=============================================================================
