---------------------------- MODULE TraceSearch ----------------------------
(***************************************************************************)
(* Observations of real searches, checked against the predicates of the    *)
(* engine properties.  One event = one executed scenario ("case") with the *)
(* abstracted answer of the entry point under test and of its twin runs:   *)
(*   main   : <<doc index, score id, score class>> per result, in order    *)
(*   cmp    : comparison of consecutive scores (1 >, 0 =, -1 <, -2 NaN)    *)
(*   attr   : <<platform class, is-pipeline, is-subsequence, quality>>     *)
(*   off    : answer of the same search with typo tolerance off            *)
(*   reps   : answer identities of repetitions; vars: of case re-spellings *)
(* Answer identities (mainans, offans, ...) intern the whole list with     *)
(* score bits.  CONSTANT Check selects whose clauses are enforced.         *)
(***************************************************************************)
EXTENDS Corpus, Json, IOUtils, TLC
CONSTANT Check
VARIABLE l
Trace == ndJsonDeserialize(IOEnv.TRACEFILE)
Ev == Trace[l]

ClsName(i) == CASE i = 0 -> "none" [] i = 1 -> "inforce" [] i = 2 -> "cross" [] i = 3 -> "tool" [] i = 4 -> "foreign" [] OTHER -> "unknown"
SeqSet(s) == {s[i] : i \in 1..Len(s)}
O == [allplat |-> Ev.sc.allplat, plats |-> SeqSet(Ev.sc.plats), nocross |-> Ev.sc.nocross, ponly |-> Ev.sc.ponly]
DocsOf(R) == {R[i][1] : i \in 1..Len(R)}

\* C01: bounded, members, duplicate-free, finite non-negative scores, ranked
P01 ==
    /\ ~Ev.panic
    /\ Ev.deflt >= 1 /\ Ev.deflt = Ev.defltneg              \* one default limit for 0 and for negative limits
    /\ Ev.deflt < Ev.sat                                    \* ... which is a limit: fewer results than a large explicit limit yields
    /\ Len(Ev.main) <= Ev.efflim
    /\ \A i \in 1..Len(Ev.main) : Ev.main[i][1] >= 0 /\ Ev.main[i][1] < Ev.n /\ Ev.main[i][3] \in {0, 1}
    /\ Cardinality(DocsOf(Ev.main)) = Len(Ev.main)
    /\ \A i \in 1..Len(Ev.cmp) : Ev.cmp[i] >= 0

\* C04: every result eligible, on every path except the (unlisted) recovery search
P04 ==
    Ev.path # "recovery" =>
        \A i \in 1..Len(Ev.attr) : PlatformOK(ClsName(Ev.attr[i][1]), O) /\ PipelineOK(Ev.attr[i][2] = 1, O)

\* C07: fallback never overrides an existing answer; its results are genuine, good enough, best first; complete
P07 ==
    /\ (Ev.hasoff /\ Len(Ev.off) > 0) => Ev.mainans = Ev.offans
    /\ (Ev.path \in {"fuzzy", "cached-fuzzy"}) =>
          /\ \A i \in 1..Len(Ev.attr) : Ev.attr[i][3] = 1 /\ (Ev.sc.thr # 0 => Ev.attr[i][4] >= Ev.sc.thr)
          /\ \A i \in 1..(Len(Ev.attr) - 1) : Ev.attr[i][4] >= Ev.attr[i + 1][4]
          /\ \A i \in 1..Len(Ev.cmp) : Ev.cmp[i] >= 0                       \* ... and by the scores it reports
    /\ (Ev.sc.fuzzy /\ Ev.sc.thr = 0 /\ Ev.elgsub /\ Ev.sc.entry # "pipeline" /\ ~Ev.panic) => Len(Ev.main) > 0

\* C02: every repetition (same process, re-loaded copy, other process) gives the identical answer
P02 == /\ \A i \in 1..Len(Ev.reps) : Ev.reps[i] = Ev.mainans
       /\ \A i, j \in 1..Len(Ev.sugs) : Ev.sugs[i] = Ev.sugs[j]            \* "did you mean" suggestions likewise
\* C20: every admissible case re-spelling of the query gives the identical answer
P20 == \A i \in 1..Len(Ev.vars) : Ev.vars[i] = Ev.mainans
\* C05 (single-step part): first (miss) and second (hit) answers through the cache equal the uncached answer
P05 == Ev.hasfirst => (Ev.firstans = Ev.freshans /\ Ev.mainans = Ev.freshans)

\* C13: context boosts never add or remove a candidate; a command containing a boosted word never scores lower,
\* one that contains none scores exactly the same (compared at a limit >= database size)
P13 == Ev.hasnob =>
          /\ DocsOf(Ev.main) = DocsOf(Ev.nob)
          /\ \A i \in 1..Len(Ev.bcmp) : IF Ev.bcmp[i][2] = 1 THEN Ev.bcmp[i][3] \in {0, 1} ELSE Ev.bcmp[i][3] = 0

TCase == Ev.op = "case"
    /\ ("C01" \in Check => P01) /\ ("C04" \in Check => P04) /\ ("C07" \in Check => P07)
    /\ ("C02" \in Check => P02) /\ ("C20" \in Check => P20) /\ ("C05" \in Check => P05)
    /\ ("C13" \in Check => P13)

\* C06: NLP enhancement never drops what the user typed (compared at a limit >= database size, typo tolerance off)
IdxIn(x, s) == CHOOSE i \in 1..Len(s) : s[i] = x
TNlp == Ev.op = "nlp"
    /\ ~Ev.panic
    /\ (Ev.ntok <= 10 => SeqSet(Ev.off) \subseteq SeqSet(Ev.on))           \* every lexical match is still a candidate
    /\ SeqSet(Ev.first4) \subseteq SeqSet(Ev.on)                           \* the first four content words are always retained
    /\ SeqSet(Ev.first4) \subseteq SeqSet(Ev.oncap)                        \* ... also under a small cap on the number of terms
    /\ (\A i \in 1..Len(Ev.oncmp) : Ev.oncmp[i] >= 0)
    /\ Len(Ev.kw) <= Len(Ev.enh) /\ SubSeq(Ev.enh, 1, Len(Ev.kw)) = Ev.kw  \* the expanded list begins with the keywords
    /\ Cardinality(SeqSet(Ev.enh)) = Len(Ev.enh)                           \* no duplicates
    /\ (\A i, j \in 1..Len(Ev.kw) :                                       \* the user's own words keep the user's order
            (i < j /\ Ev.kw[i] \in SeqSet(Ev.uw) /\ Ev.kw[j] \in SeqSet(Ev.uw) /\ Ev.kwsyn[i] = 0 /\ Ev.kwsyn[j] = 0)
                => IdxIn(Ev.kw[i], Ev.uw) < IdxIn(Ev.kw[j], Ev.uw))      \* (a synonym may follow its word: such slots are exempt)
    /\ Ev.same                                                            \* analysing the same text again gives the same analysis
    /\ Ev.kwcomp                                                          \* no word of the user's is lost by the words around it
    /\ Ev.onsame                                                          \* ... also inside a database that has analysed other texts before

\* C03 (a): the candidates are exactly the documents containing a content word of the query (all of them up to ten
\* content words, at least those of the first four otherwise); for small databases TLC recomputes the scan from token ids
ScanOf(docs, qt) == {d \in 1..Len(docs) : \E f \in 1..4 : \E i \in 1..Len(docs[d][f]) : docs[d][f][i] \in SeqSet(qt)}
TScan == Ev.op = "scan"
    /\ ~Ev.panic
    /\ (Ev.ntok <= 10 => SeqSet(Ev.res) = SeqSet(Ev.ref))
    /\ SeqSet(Ev.first4) \subseteq SeqSet(Ev.res)
    /\ (Ev.small => {d - 1 : d \in ScanOf(Ev.docs, Ev.qt)} = SeqSet(Ev.ref))       \* the harness' reference scan agrees with the specification's
    /\ Ev.serr = 0                                                                  \* every score equals the BM25F sum (float kernel, harness side)
    /\ Cardinality(SeqSet(Ev.res)) = Len(Ev.res)
\* C03 (b): after any history of load / merge / replace / grow the answer equals that of a freshly loaded database
THist == Ev.op = "hist" /\ ~Ev.panic /\ Ev.ans = Ev.fresh

TraceInit == l = 1
TraceNext == l <= Len(Trace) /\ l' = l + 1 /\ (TCase \/ TNlp \/ TScan \/ THist)
TraceSpec == TraceInit /\ [][TraceNext]_l
TraceAccepted ==
    LET d == TLCGet("stats").diameter IN
    IF d - 1 = Len(Trace) THEN TRUE ELSE Print(<<"TRACE_REJECTED_AT", d>>, FALSE)
=============================================================================
