----------------------------- MODULE TraceLRU -----------------------------
(* Trace validation (binding B) of executions recorded from the real       *)
(* cache.LRUCache against LRU.tla.  Recency order, entry ages and whether   *)
(* an overwrite refreshed the expiry clock are not logged: TLC infers them. *)
EXTENDS LRU, Json, IOUtils

VARIABLE l
Trace == ndJsonDeserialize(IOEnv.TRACEFILE)
Ev == Trace[l]

tvars == <<vars, l>>

Obs ==
    /\ KeysOf(ents') = {Ev.keys[i] : i \in 1..Len(Ev.keys)}
    /\ hits' = Ev.hits /\ misses' = Ev.misses /\ evictions' = Ev.evictions
    /\ Len(ents') = Ev.size /\ cap' = Ev.cap

TNew    == Ev.op = "new"    /\ New(Ev.capreq, Ev.cap, Ev.ttl)
TGet    == Ev.op = "get"    /\ Get(Ev.k) /\ last'.found = Ev.found /\ (Ev.found => last'.v = Ev.v)
TPut    == Ev.op = "put"    /\ Put(Ev.k, Ev.v)
TDelete == Ev.op = "delete" /\ Delete(Ev.k) /\ last'.found = Ev.found
TClear  == Ev.op = "clear"  /\ Clear
\* the removed set is read off the logged key set (SUBSET of many expired keys must not be enumerated)
TSweep  == Ev.op = "sweep"  /\ SweepSet(Present \ {Ev.keys[i] : i \in 1..Len(Ev.keys)}) /\ last'.n = Ev.n
TTick   == Ev.op = "tick"   /\ Tick(Ev.n)
TSize   == Ev.op = "size"   /\ SizeOp /\ last'.n = Ev.n

TraceInit ==
    /\ l = 1
    /\ ents = <<>> /\ use = <<>> /\ ttl = 0 /\ cap = 1
    /\ hits = 0 /\ misses = 0 /\ evictions = 0
    /\ last = Ret("init", NoKey, NoVal, FALSE, 0)

TraceNext ==
    /\ l <= Len(Trace)
    /\ (TNew \/ TGet \/ TPut \/ TDelete \/ TClear \/ TSweep \/ TTick \/ TSize)
    /\ Obs
    /\ l' = l + 1

TraceSpec == TraceInit /\ [][TraceNext]_tvars

TraceAccepted ==
    LET d == TLCGet("stats").diameter IN
    IF d - 1 = Len(Trace) THEN TRUE
    ELSE Print(<<"TRACE_REJECTED_AT", d>>, FALSE)

TraceActionProps ==
    [][FreshHit /\ HitReturnsLatest /\ PresentLiveIsHit /\ EvictsLRU /\ NoSpuriousEviction
       /\ SweepOnlyExpired /\ StatsExact]_vars
=============================================================================
