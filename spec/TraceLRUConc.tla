--------------------------- MODULE TraceLRUConc ---------------------------
(***************************************************************************)
(* Linearisability of concurrent histories recorded from one real          *)
(* cache.LRUCache against the atomic specification LRU.tla.                *)
(* Events: "call" (operation and arguments) and "ret" (result), totally    *)
(* ordered by stamps from one atomic counter taken before the invocation   *)
(* and after the return.  Between a thread's call and its return the       *)
(* silent step Lin(t) applies the operation atomically; TRet demands that  *)
(* the recorded result is the one the specification produced.  A history   *)
(* is accepted when some interleaving of Lin steps consumes every event:   *)
(* reaching the end violates the "invariant" NotDone, which is how the     *)
(* depth-first search stops at the first witness.                          *)
(***************************************************************************)
EXTENDS LRU, Json, IOUtils
VARIABLES l, pend
Trace == ndJsonDeserialize(IOEnv.TRACEFILE)
Ev == Trace[l]
tvars == <<vars, l, pend>>
Ths == 1..6
Idle == [st |-> "idle", op |-> "", k |-> 0, v |-> 0, found |-> FALSE, rv |-> 0, n |-> 0, rh |-> 0, rm |-> 0, re |-> 0]

TReset == /\ Ev.kind = "new" /\ New(Ev.capreq, Ev.cap, Ev.ttl)
          /\ pend' = [t \in Ths |-> Idle] /\ l' = l + 1
TCall == /\ Ev.kind = "call" /\ pend[Ev.t].st = "idle"
         /\ pend' = [pend EXCEPT ![Ev.t] = [Idle EXCEPT !.st = "called", !.op = Ev.op, !.k = Ev.k, !.v = Ev.v]]
         /\ l' = l + 1 /\ UNCHANGED vars
Apply(p) == CASE p.op = "get"    -> Get(p.k)
              [] p.op = "put"    -> Put(p.k, p.v)
              [] p.op = "delete" -> Delete(p.k)
              [] p.op = "size"   -> SizeOp
              [] p.op = "stats"  -> StatsOp
              [] p.op = "clear"  -> Clear
              [] p.op = "sweep"  -> Sweep
Lin(t) == /\ pend[t].st = "called"
          /\ Apply(pend[t])
          /\ pend' = [pend EXCEPT ![t] = [@ EXCEPT !.st = "done", !.found = last'.found, !.rv = last'.v, !.n = last'.n,
                                                   !.rh = hits', !.rm = misses', !.re = evictions']]
          /\ UNCHANGED l
TRet == /\ Ev.kind = "ret" /\ pend[Ev.t].st = "done"
        /\ LET p == pend[Ev.t] IN
             /\ (p.op \in {"get", "delete"} => p.found = Ev.found)
             /\ (p.op = "get" /\ Ev.found => p.rv = Ev.rv)
             /\ (p.op \in {"size", "stats", "sweep"} => p.n = Ev.n)
             /\ (p.op = "stats" => p.rh = Ev.rh /\ p.rm = Ev.rm /\ p.re = Ev.re)
        /\ pend' = [pend EXCEPT ![Ev.t] = Idle]
        /\ l' = l + 1 /\ UNCHANGED vars

\* the logical clock advanced between operations (nothing is in flight)
TTick == /\ Ev.kind = "tick" /\ (\A t \in Ths : pend[t].st = "idle") /\ Tick(Ev.n) /\ l' = l + 1 /\ UNCHANGED pend
TraceInit == /\ TLCSet(1, 0) /\ l = 1 /\ pend = [t \in Ths |-> Idle]
             /\ ents = <<>> /\ use = <<>> /\ ttl = 0 /\ cap = 1 /\ hits = 0 /\ misses = 0 /\ evictions = 0
             /\ last = Ret("init", NoKey, NoVal, FALSE, 0)
TraceNext == \/ (l <= Len(Trace) /\ (TReset \/ TCall \/ TRet \/ TTick))
             \/ (l <= Len(Trace) /\ \E t \in Ths : Lin(t))
TraceSpec == TraceInit /\ [][TraceNext]_tvars
\* high-water mark of consumed events (needs -workers 1)
Track == IF l > TLCGet(1) THEN TLCSet(1, l) ELSE TRUE
NotDone == l <= Len(Trace)
Report == PrintT(<<"MAX_EVENT_REACHED", TLCGet(1)>>)
=============================================================================
