---------------------------- MODULE TraceAtomic ----------------------------
(***************************************************************************)
(* (1) The system calls a real writer process makes on the target file and *)
(* its directory (recorded with strace) must be a behaviour of AtomicWrite *)
(* in "tmp+rename" mode: a truncating open of the live file, or a write to *)
(* it, is simply not an action.  (2) After every injected fault (write cut *)
(* at byte k, error returned by a call, process killed at a call) the file *)
(* must hold the old or the new content and load, and success must not     *)
(* have been reported unless the new content is in place.                  *)
(***************************************************************************)
EXTENDS AtomicWrite, Sequences, Json, IOUtils
VARIABLES l, got       \* got: bytes written so far to the file being written
Trace == ndJsonDeserialize(IOEnv.TRACEFILE)
Ev == Trace[l]
TBegin == Ev.op = "begin" /\ target' = (IF Ev.hadold THEN "old" ELSE "absent") /\ tmp' = "none" /\ pc' = "start" /\ wrote' = "none" /\ got' = 0
Content(n, total) == IF n >= total THEN "new" ELSE IF n = 0 THEN "empty" ELSE "partial"
\* HadOld is a constant of the base module; the trace carries it per scenario, so Intact is restated over the event
TSys == Ev.op = "sys" /\
        CASE Ev.call = "open_tmp"   -> OpenTmp /\ got' = 0
          [] Ev.call = "write_tmp"  -> Write /\ wrote = "tmp" /\ got' = got + Ev.bytes /\ tmp' = Content(got + Ev.bytes, Ev.total)
          [] Ev.call = "fsync"      -> Sync /\ UNCHANGED got
          [] Ev.call = "close"      -> Close /\ UNCHANGED got
          [] Ev.call = "rename"     -> Rename /\ UNCHANGED got
          [] Ev.call = "open_trunc" -> OpenTrunc /\ got' = 0
          [] Ev.call = "write_target" -> Write /\ wrote = "target" /\ got' = got + Ev.bytes /\ target' = Content(got + Ev.bytes, Ev.total)
          \* not actions of the specification: a temporary file opened without insisting on a new file or emptying an existing
          \* one ("open_tmp_keep": it would inherit what an interrupted run left there), the live file moved out of its place
          \* ("rename_away")
          [] OTHER -> FALSE
TEnd == Ev.op = "end" /\ pc \in {"done", "start"} /\ UNCHANGED <<avars, got>>      \* "start": the command had nothing to write
TFault == Ev.op = "fault"
            /\ Ev.after \in {"old", "new"} /\ Ev.loads
            /\ (Ev.success => Ev.after = "new")
            /\ UNCHANGED <<avars, got>>
TraceInit == l = 1 /\ target = "absent" /\ tmp = "none" /\ pc = "start" /\ wrote = "none" /\ got = 0
TraceNext == l <= Len(Trace) /\ l' = l + 1 /\ (TBegin \/ TSys \/ TEnd \/ TFault)
TraceSpec == TraceInit /\ [][TraceNext]_<<avars, l, got>>
NeverDamaged == target \in {"absent", "old", "new"}
TraceAccepted ==
    LET d == TLCGet("stats").diameter IN
    IF d - 1 = Len(Trace) THEN TRUE ELSE Print(<<"TRACE_REJECTED_AT", d>>, FALSE)
=============================================================================
