----------------------------- MODULE PathRules -----------------------------
(***************************************************************************)
(* X05 - path and file-name hygiene (internal/validation: ValidatePath,    *)
(* SanitizePath, SanitizeFilename).  A text is a sequence of characters,   *)
(* each abstracted to a class:                                             *)
(*   1 A ordinary one-byte character     2 D dot          3 SL slash       *)
(*   4 BS backslash     5 Q other reserved character  : * ? " < > |        *)
(*   6 SP space         7 Z NUL byte      8 M two-byte character           *)
(*   9 F the first byte of a two-byte character on its own (not UTF-8)     *)
(*  10 US underscore (what reserved characters and ".." are turned into)   *)
(* The stages follow the code.  Caps are byte counts.                      *)
(***************************************************************************)
EXTENDS Integers, Sequences, FiniteSets, TLC
CONSTANTS PathCap, NameCap

Classes  == 1..10
Width(c) == IF c = 8 THEN 2 ELSE 1
RECURSIVE BytesFrom(_, _, _)
BytesFrom(s, i, acc) == IF i > Len(s) THEN acc ELSE BytesFrom(s, i + 1, acc + Width(s[i]))
Bytes(s) == BytesFrom(s, 1, 0)

NoNul(s) == SelectSeq(s, LAMBDA c : c # 7)
\* ".." -> "_", left to right, matches do not overlap
RECURSIVE DD(_, _, _)
DD(s, i, out) == IF i > Len(s) THEN out
                 ELSE IF i < Len(s) /\ s[i] = 2 /\ s[i + 1] = 2 THEN DD(s, i + 2, Append(out, 10))
                 ELSE DD(s, i + 1, Append(out, s[i]))
\* cut after cap bytes: a two-byte character that straddles the cut leaves its first byte behind
RECURSIVE Cut(_, _, _, _)
Cut(s, i, used, cap) ==
    IF i > Len(s) \/ used >= cap THEN SubSeq(s, 1, i - 1)
    ELSE IF used + Width(s[i]) > cap THEN Append(SubSeq(s, 1, i - 1), 9)
    ELSE Cut(s, i + 1, used + Width(s[i]), cap)
TruncB(s, cap) == Cut(s, 1, 0, cap)

HasDotDot(s) == \E i \in 1..(Len(s) - 1) : s[i] = 2 /\ s[i + 1] = 2
HasNul(s)    == \E i \in 1..Len(s) : s[i] = 7

\* ValidatePath: why a path is refused ("" = accepted); the order of the tests is the code's
PathVerdict(s) == IF s = <<>> THEN "empty" ELSE IF HasDotDot(s) THEN "traversal" ELSE IF HasNul(s) THEN "nul"
                  ELSE IF Bytes(s) > PathCap THEN "long" ELSE ""
ValidPath(s)   == PathVerdict(s) = ""
SanitizePath(s) == TruncB(DD(NoNul(s), 1, <<>>), PathCap)

Reserved(c) == c \in {3, 4, 5}
Under(s)    == [i \in 1..Len(s) |-> IF Reserved(s[i]) THEN 10 ELSE s[i]]
Edge(c)     == c \in {2, 6}                                   \* space and dot are trimmed from both ends
RECURSIVE TrimL(_), TrimR(_)
TrimL(s) == IF s # <<>> /\ Edge(Head(s)) THEN TrimL(Tail(s)) ELSE s
TrimR(s) == IF s # <<>> /\ Edge(s[Len(s)]) THEN TrimR(SubSeq(s, 1, Len(s) - 1)) ELSE s
SanitizeFilename(s) == TruncB(TrimR(TrimL(Under(s))), NameCap)

\* theorems about one text s
PathSafe(s)      == LET o == SanitizePath(s) IN o = <<>> \/ ValidPath(o)      \* what comes out is accepted (or nothing is left)
PathIdem(s)      == SanitizePath(SanitizePath(s)) = SanitizePath(s)
PathKeepsGood(s) == ValidPath(s) => SanitizePath(s) = s
NameSafe(s)      == LET o == SanitizeFilename(s) IN (\A i \in 1..Len(o) : ~Reserved(o[i])) /\ Bytes(o) <= NameCap
NameKeepsGood(s) == ((\A i \in 1..Len(s) : ~Reserved(s[i])) /\ Bytes(s) <= NameCap /\ (s # <<>> => ~Edge(s[1]) /\ ~Edge(s[Len(s)])))
                        => SanitizeFilename(s) = s
\* as built these three do NOT hold once the cap cuts: the cut can expose a dot or a space at the end, and can split a character
NameTrimmed(s)   == LET o == SanitizeFilename(s) IN o = <<>> \/ (~Edge(o[1]) /\ ~Edge(o[Len(o)]))
NameWhole(s)     == (\A i \in 1..Len(s) : s[i] # 9) => \A i \in 1..Len(SanitizeFilename(s)) : SanitizeFilename(s)[i] # 9
NameIdem(s)      == SanitizeFilename(SanitizeFilename(s)) = SanitizeFilename(s)
PathWhole(s)     == (\A i \in 1..Len(s) : s[i] # 9) => \A i \in 1..Len(SanitizePath(s)) : SanitizePath(s)[i] # 9
=============================================================================
