------------------------------ MODULE MCAlias ------------------------------
EXTENDS Alias
MCNames == {[id |-> "hey", kind |-> "plain", target |-> ""], [id |-> "miko", kind |-> "plain", target |-> ""],
            [id |-> "sub/x", kind |-> "nested", target |-> ""], [id |-> "", kind |-> "self", target |-> ""],
            [id |-> "../x", kind |-> "escape", target |-> ".local/bin/x"], [id |-> "../../../.bashrc", kind |-> "escape", target |-> ".bashrc"],
            [id |-> "-x", kind |-> "flag", target |-> ""]}
MCSeeded == {".bashrc"}
=============================================================================
