--------------------------- MODULE TracePathRules ---------------------------
(* Calls of the real validation.ValidatePath / SanitizePath / SanitizeFilename, input and output abstracted to classes *)
(* by the recorder; the outcome must be the specification's, with the real caps.                                        *)
EXTENDS PathRules, Json, IOUtils
VARIABLE l
Trace == ndJsonDeserialize(IOEnv.TRACEFILE)
Ev == Trace[l]
\* long texts are logged run-length encoded: <<class, count>> pairs
RECURSIVE Expand(_, _, _)
Expand(r, i, out) == IF i > Len(r) THEN out ELSE Expand(r, i + 1, out \o [k \in 1..r[i][2] |-> r[i][1]])
In  == Expand(Ev.inp, 1, <<>>)
Out == Expand(Ev.out, 1, <<>>)
TValidate == Ev.op = "vpath" /\ Ev.why = PathVerdict(In)
TSanPath  == Ev.op = "spath" /\ Out = SanitizePath(In)
TSanName  == Ev.op = "sname" /\ Out = SanitizeFilename(In)
TraceInit == l = 1
TraceNext == l <= Len(Trace) /\ l' = l + 1 /\ (TValidate \/ TSanPath \/ TSanName)
TraceSpec == TraceInit /\ [][TraceNext]_l
TraceAccepted ==
    LET d == TLCGet("stats").diameter IN
    IF d - 1 = Len(Trace) THEN TRUE ELSE Print(<<"TRACE_REJECTED_AT", d>>, FALSE)
=============================================================================
