--------------------------- MODULE TraceValidate ---------------------------
(* Each event is one call of the real ValidateQuery / ValidateLimit; inputs and outputs are class sequences *)
EXTENDS Validate, Json, IOUtils
VARIABLE l
Trace == ndJsonDeserialize(IOEnv.TRACEFILE)
Ev == Trace[l]
\* Ev.merge: deleting control characters joins stray bytes of this input into a new character, which the
\* class abstraction cannot express; only the class-independent clauses are required then
TQuery == Ev.op = "query"
            /\ (~Ev.merge => Ev.ok = Accept(Ev.in))
            /\ (Ev.ok => Bytes(Ev.in) <= Max /\ ~HasMeta(Ev.in))
            /\ (Ev.ok => ((~Ev.merge => Ev.out = Out(Ev.in)) /\ Clean(Ev.out) /\ Len(Ev.out) >= 1
                           /\ Ev.ok2 /\ Ev.same /\ Ev.outchars <= Ev.inchars))
TLimit == Ev.op = "limit"
            /\ Ev.ok = LimitAccept(Ev.n)
            /\ (Ev.ok => (Ev.val = LimitValue(Ev.n, Ev.deflt) /\ Ev.val >= 1 /\ Ev.val <= 100))
\* the command line applies the same rule however the search is started: nothing is listed for a rejected limit, at most
\* the limit in force otherwise
TCLimit == Ev.op = "climit"
            /\ (LimitAccept(Ev.n) => (Ev.printed >= 1 /\ Ev.printed <= LimitValue(Ev.n, Ev.deflt)))
            /\ (~LimitAccept(Ev.n) => Ev.printed = 0)
\* the command line searches (and records) exactly the queries the validator accepts for the joined arguments
TCQuery == Ev.op = "cquery" /\ Ev.ok2 = Ev.ok
TraceInit == l = 1
TraceNext == l <= Len(Trace) /\ l' = l + 1 /\ (TQuery \/ TLimit \/ TCLimit \/ TCQuery)
TraceSpec == TraceInit /\ [][TraceNext]_l
TraceAccepted ==
    LET d == TLCGet("stats").diameter IN
    IF d - 1 = Len(Trace) THEN TRUE ELSE Print(<<"TRACE_REJECTED_AT", d>>, FALSE)
=============================================================================
