-------------------------------- MODULE Cli --------------------------------
(***************************************************************************)
(* One run of the wtf binary as a pipeline of stages (internal/cli):       *)
(*   Parse -> Validate -> Load -> Search -> Recover? -> Record -> Format   *)
(*   -> Exit                                                               *)
(* driven by a scenario: sub-command, argument shape, query class, --limit *)
(* class, --format, verbosity, colour switches, platform flags, database   *)
(* class.  Outputs are abstract: how the run ended, how many results were  *)
(* printed, whether a history entry was written.                           *)
(* Design switches: RecoverBounded TRUE | FALSE; RecordRejected FALSE |    *)
(* TRUE (a rejected query is recorded in the history anyway).              *)
(***************************************************************************)
EXTENDS Integers, Sequences, FiniteSets, TLC
CONSTANTS RecoverBounded, RecordRejected
VARIABLES sc, stage, nres, hist, ended
clivars == <<sc, stage, nres, hist, ended>>

SearchSubs == {"search", "implicit"}
\* does the argument shape satisfy the sub-command's arity?
ArityOK(s) ==
    CASE s.sub \in SearchSubs \cup {"pipeline"} -> s.args \in {"one", "many", "hostile"}
      [] s.sub \in {"save", "savep"} -> s.args = "two"
      [] s.sub = "setup" -> s.args = "one"
      [] s.sub = "wizard" -> s.args \in {"none", "one"}
      [] s.sub \in {"history"} -> TRUE
      [] OTHER -> TRUE
QueryAccepted(s) == s.query \in {"hit", "recover", "none", "padded"}
LimitAccepted(s) == s.limit \in {"absent", "0", "1", "3", "100"}
LimitInForce(s) == CASE s.limit = "1" -> 1 [] s.limit = "3" -> 3 [] s.limit = "100" -> 100 [] OTHER -> 5
Matches(s) == IF s.db # "valid" THEN 0                      \* the built-in fallback database does not know the query words
              ELSE CASE s.query \in {"hit", "padded"} -> 8 [] s.query = "recover" -> 0 [] OTHER -> 0
RecoveryMatches(s) == IF s.db = "valid" /\ s.query = "recover" THEN 12 ELSE 0

FlagError(s) == s.limit = "abc" \/ s.args = "unknownflag"
Parse == /\ stage = "parse"
         /\ IF FlagError(sc) \/ ~ArityOK(sc)
              THEN ended' = "usage" /\ stage' = "exit"
              ELSE ended' = ended /\ stage' = (IF sc.sub \in SearchSubs THEN "validate" ELSE "other")
         /\ UNCHANGED <<sc, nres, hist>>
Validate == /\ stage = "validate"
            /\ IF QueryAccepted(sc) /\ LimitAccepted(sc) THEN stage' = "load" /\ UNCHANGED <<ended, hist>>
               ELSE /\ stage' = "exit" /\ ended' = "rejected"
                    /\ hist' = IF RecordRejected THEN hist + 1 ELSE hist
            /\ UNCHANGED <<sc, nres>>
Load   == stage = "load" /\ stage' = "search" /\ UNCHANGED <<sc, nres, hist, ended>>      \* always ends with a usable database (C15)
Min(a, b) == IF a < b THEN a ELSE b
Search == /\ stage = "search" /\ nres' = Min(Matches(sc), LimitInForce(sc))
          /\ stage' = (IF Min(Matches(sc), LimitInForce(sc)) = 0 THEN "recover" ELSE "record") /\ UNCHANGED <<sc, hist, ended>>
Recover == /\ stage = "recover"
           /\ nres' = IF RecoverBounded THEN Min(RecoveryMatches(sc), LimitInForce(sc)) ELSE RecoveryMatches(sc)
           /\ stage' = "record" /\ UNCHANGED <<sc, hist, ended>>
Record == stage = "record" /\ hist' = hist + 1 /\ stage' = "format" /\ UNCHANGED <<sc, nres, ended>>
Format == stage = "format" /\ stage' = "exit" /\ ended' = (IF nres = 0 THEN "noresults" ELSE "results") /\ UNCHANGED <<sc, nres, hist>>
Other  == stage = "other" /\ stage' = "exit" /\ ended' = "ran" /\ UNCHANGED <<sc, nres, hist>>
Next == Parse \/ Validate \/ Load \/ Search \/ Recover \/ Record \/ Format \/ Other

AtExit == stage = "exit"
EndsSomehow == AtExit => ended \in {"usage", "rejected", "noresults", "results", "ran"}
PrintedBounded == AtExit => nres <= LimitInForce(sc)
HistoryOnce == AtExit => hist = (IF ended \in {"noresults", "results"} THEN 1 ELSE 0)
=============================================================================
