---------------------------- MODULE MCValidate ----------------------------
(* every class sequence up to MaxLen is one initial state; the theorems are invariants *)
EXTENDS Validate, Json, CSV, IOUtils
CONSTANTS MaxLen
VARIABLE s
Classes == 1..11
Init == s \in UNION {[1..n -> Classes] : n \in 0..MaxLen}
Next == UNCHANGED s
Spec == Init /\ [][Next]_s
T1 == StagedAgrees(s)
T2 == OutClean(s)
T3 == Idempotent(s)
DumpS == CSVWrite("%1$s", <<ToJson(s)>>, IOEnv.DUMPFILE)
=============================================================================
