---------------------------- MODULE MCPathRules ----------------------------
(* every text of up to MaxLen characters over the ten classes, caps of a few bytes *)
EXTENDS PathRules
CONSTANT MaxLen
VARIABLE s
Init == s = <<>>
Next == Len(s) < MaxLen /\ \E c \in Classes : s' = Append(s, c)
Spec == Init /\ [][Next]_s
Holds     == PathSafe(s) /\ PathIdem(s) /\ PathKeepsGood(s) /\ NameSafe(s) /\ NameKeepsGood(s)
Trimmed   == NameTrimmed(s)
Whole     == NameWhole(s)
Idem      == NameIdem(s)
WholePath == PathWhole(s)
=============================================================================
