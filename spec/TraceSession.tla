---------------------------- MODULE TraceSession ----------------------------
(***************************************************************************)
(* Specification growth (X02): a whole CLI session - searches interleaved  *)
(* with `wtf history`, `--top`, `--stats`, `--clear` and pattern look-ups  *)
(* - run through the real binary in one home directory and validated       *)
(* against History.tla: every accepted search records (or, for an          *)
(* immediate repeat, updates) one entry; the history views printed by the  *)
(* CLI are exactly the specification's views of the recorded entries; the  *)
(* file on disk holds exactly the model's entries after every command.     *)
(***************************************************************************)
EXTENDS History, Json, IOUtils
VARIABLE l
Trace == ndJsonDeserialize(IOEnv.TRACEFILE)
Ev == Trace[l]
Qs(e) == [i \in 1..Len(e) |-> e[i].q]
OnDisk == Qs(ents') = Ev.disk                                   \* queries in the history file after the command
TBegin  == Ev.op = "begin" /\ New(100, 100) /\ OnDisk
TSearch == Ev.op = "search" /\ ~Ev.crash
             /\ (IF Ev.accepted THEN AddB(Ev.q, 0, 100) ELSE UNCHANGED hvars)
             /\ OnDisk
TRecent == Ev.op = "recent" /\ ~Ev.crash /\ Ev.res = RecentOf(ents, Ev.n) /\ UNCHANGED hvars /\ OnDisk
TTop    == Ev.op = "top" /\ ~Ev.crash /\ TopOK(Ev.res, ents, Ev.n) /\ UNCHANGED hvars /\ OnDisk
TStats  == Ev.op = "stats" /\ ~Ev.crash /\ Ev.total = Len(ents) /\ Ev.unique = Cardinality(Queries(ents)) /\ UNCHANGED hvars /\ OnDisk
TClear  == Ev.op = "clear" /\ ~Ev.crash /\ ents' = <<>> /\ UNCHANGED <<max, file, crashed, last>> /\ OnDisk
\* pattern look-up: the entries whose query contains the pattern (Ev.match: the query ids that do), newest first, at most n
RECURSIVE Matching(_, _, _)
Matching(e, i, m) == IF i = 0 THEN <<>> ELSE IF e[i].q \in m THEN <<e[i].q>> \o Matching(e, i - 1, m) ELSE Matching(e, i - 1, m)
TPattern == Ev.op = "pattern" /\ ~Ev.crash
              /\ LET all == Matching(ents, Len(ents), {Ev.match[i] : i \in 1..Len(Ev.match)}) IN
                   Ev.res = (IF Len(all) > Ev.n THEN SubSeq(all, 1, Ev.n) ELSE all)
              /\ UNCHANGED hvars /\ OnDisk
TraceInit == l = 1 /\ ents = <<>> /\ max = 100 /\ file = NoFile("missing") /\ crashed = FALSE /\ last = HRet("init", 0, TRUE, 0)
TraceNext == l <= Len(Trace) /\ l' = l + 1 /\ (TBegin \/ TSearch \/ TRecent \/ TTop \/ TStats \/ TClear \/ TPattern)
TraceSpec == TraceInit /\ [][TraceNext]_<<hvars, l>>
TraceAccepted ==
    LET d == TLCGet("stats").diameter IN
    IF d - 1 = Len(Trace) THEN TRUE ELSE Print(<<"TRACE_REJECTED_AT", d>>, FALSE)
=============================================================================
