------------------------------- MODULE Index -------------------------------
(***************************************************************************)
(* The inverted index and the TF-IDF re-ranker as snapshots of the command *)
(* list, over histories of load / merge / replace / grow (C03, history     *)
(* half; internal/database/loader.go, search_cached.go UpdateDatabase,     *)
(* search_universal.go lazy rebuild).                                      *)
(*   cmds       : the command list being searched (sequence of doc ids)    *)
(*   idxSnap    : the list the inverted index was built from               *)
(*   rerankSnap : the list the re-ranker (TF-IDF vectors + pointer map)    *)
(*                was built from                                           *)
(* A search first performs the lazy step (rebuild when the number of       *)
(* commands changed), then reads the snapshots.  Design switch             *)
(* RerankerRebuildOn \subseteq {"load","merge","replace","grow"}: on which *)
(* events the re-ranker is rebuilt together with the index.                *)
(***************************************************************************)
EXTENDS Integers, Sequences, FiniteSets, TLC
CONSTANTS RerankerRebuildOn, Lists       \* Lists: the command lists histories draw from
VARIABLES cmds, idxSnap, rerankSnap, searched
ivars == <<cmds, idxSnap, rerankSnap, searched>>

R(ev, new) == IF ev \in RerankerRebuildOn THEN new ELSE rerankSnap
Load(c)      == cmds' = c /\ idxSnap' = c /\ rerankSnap' = R("load", c) /\ searched' = "no"
Merge(a, b)  == cmds' = a \o b /\ idxSnap' = a \o b /\ rerankSnap' = R("merge", a \o b) /\ searched' = "no"
Replace(c)   == cmds' = c /\ idxSnap' = c /\ rerankSnap' = R("replace", c) /\ searched' = "no"
Grow(c)      == cmds' = cmds \o c /\ UNCHANGED <<idxSnap, rerankSnap>> /\ searched' = "no"
\* the lazy step of a search, then the search itself
Search(nlp) ==
    /\ idxSnap' = IF Len(idxSnap) # Len(cmds) THEN cmds ELSE idxSnap
    /\ rerankSnap' = IF Len(idxSnap) # Len(cmds) THEN R("grow", cmds) ELSE rerankSnap
    /\ searched' = IF nlp THEN "nlp" ELSE "plain"
    /\ UNCHANGED cmds

IndexFresh    == searched # "no" => idxSnap = cmds
RerankerFresh == searched = "nlp" => rerankSnap = cmds
=============================================================================
