--------------------------- MODULE TraceTotality ---------------------------
EXTENDS Totality, Json, IOUtils
VARIABLE l
Trace == ndJsonDeserialize(IOEnv.TRACEFILE)
Ev == Trace[l]
TLoad == Ev.op = "load" /\ Ev.outcome \in LoadAllowed(Ev.shape)
\* the same content as the personal notebook beside a good main file: an absent notebook is fine, anything that cannot be
\* decoded is still reported as a parse error (not passed over in silence)
TLoadP == Ev.op = "loadp" /\ Ev.outcome \in (IF Ev.shape = "missing" THEN {"loads"} ELSE LoadAllowed(Ev.shape))
TCall == Ev.op = "call" /\ Ev.outcome \in CallAllowed
TraceInit == l = 1
TraceNext == l <= Len(Trace) /\ l' = l + 1 /\ (TLoad \/ TLoadP \/ TCall)
TraceSpec == TraceInit /\ [][TraceNext]_l
TraceAccepted ==
    LET d == TLCGet("stats").diameter IN
    IF d - 1 = Len(Trace) THEN TRUE ELSE Print(<<"TRACE_REJECTED_AT", d>>, FALSE)
=============================================================================
