------------------------------- MODULE TTLMap -------------------------------
(***************************************************************************)
(* The TTL map with optional background clean-up (internal/cache/cache.go; *)
(* not covered by a listed property - specification growth).               *)
(*   items   : key -> [v, age] (age saturating at ttl + 1)                 *)
(*   cleaner : "none" | "running" | "stopped"  (the ticker goroutine)      *)
(* Get answers from a live entry only; expired entries stay until a        *)
(* clean-up (explicit, or the background one at any moment while running)  *)
(* removes them, so Size may count them.  Stop is idempotent in a          *)
(* conforming design (design switch StopTwice "ok" | "panics").            *)
(***************************************************************************)
EXTENDS Integers, FiniteSets, TLC
CONSTANTS StopTwice
VARIABLES items, ttl, cleaner, crashed, tlast
tvars == <<items, ttl, cleaner, crashed, tlast>>
NoV == -1
TRet(op, k, v, found, n) == [op |-> op, k |-> k, v |-> v, found |-> found, n |-> n]
Sat(n) == IF n > ttl THEN ttl + 1 ELSE n
Expired(k) == items[k].age > ttl
Live == {k \in DOMAIN items : ~Expired(k)}

TNew(t, auto) == /\ items' = <<>> /\ ttl' = t /\ cleaner' = (IF auto THEN "running" ELSE "none") /\ crashed' = FALSE
                 /\ tlast' = TRet("new", 0, NoV, FALSE, 0)
TSet(k, v) == /\ items' = [x \in DOMAIN items \cup {k} |-> IF x = k THEN [v |-> v, age |-> 0] ELSE items[x]]
              /\ tlast' = TRet("set", k, v, FALSE, 0) /\ UNCHANGED <<ttl, cleaner, crashed>>
TGet(k) == /\ tlast' = (IF k \in Live THEN TRet("get", k, items[k].v, TRUE, 0) ELSE TRet("get", k, NoV, FALSE, 0))
           /\ UNCHANGED <<items, ttl, cleaner, crashed>>
TDelete(k) == /\ items' = [x \in DOMAIN items \ {k} |-> items[x]] /\ tlast' = TRet("delete", k, NoV, FALSE, 0)
              /\ UNCHANGED <<ttl, cleaner, crashed>>
TClear == items' = <<>> /\ tlast' = TRet("clear", 0, NoV, FALSE, 0) /\ UNCHANGED <<ttl, cleaner, crashed>>
Purge == items' = [x \in Live |-> items[x]]
TCleanup == Purge /\ tlast' = TRet("cleanup", 0, NoV, FALSE, 0) /\ UNCHANGED <<ttl, cleaner, crashed>>
BgCleanup == cleaner = "running" /\ Purge /\ UNCHANGED <<ttl, cleaner, crashed, tlast>>        \* silent: the ticker fired
TSize == tlast' = TRet("size", 0, NoV, FALSE, Cardinality(DOMAIN items)) /\ UNCHANGED <<items, ttl, cleaner, crashed>>
TTick(n) == /\ items' = [x \in DOMAIN items |-> [items[x] EXCEPT !.age = Sat(@ + n)]]
            /\ tlast' = TRet("tick", 0, NoV, FALSE, n) /\ UNCHANGED <<ttl, cleaner, crashed>>
TStop == /\ cleaner' = (IF cleaner = "none" THEN "none" ELSE "stopped")
         /\ crashed' = (crashed \/ (cleaner = "stopped" /\ StopTwice = "panics"))
         /\ tlast' = TRet("stop", 0, NoV, FALSE, 0) /\ UNCHANGED <<items, ttl>>

GetOnlyLive == [][(tlast'.op = "get" /\ tlast'.found) => (tlast'.k \in DOMAIN items /\ items[tlast'.k].age <= ttl /\ tlast'.v = items[tlast'.k].v)]_tvars
NoCrash == ~crashed
=============================================================================
