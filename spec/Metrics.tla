----------------------------- MODULE Metrics -----------------------------
(***************************************************************************)
(* Metrics registry, counters, histograms and the performance monitor      *)
(* (internal/metrics).  Identity of a series = (kind, name, tag SET).      *)
(* GetOrCreate receives the order `perm` in which the runtime happens to   *)
(* iterate over the tag map; design switch SeriesKey says whether the      *)
(* registry key depends on it ("maporder") or not ("canonical").           *)
(***************************************************************************)
EXTENDS Integers, Sequences, FiniteSets, TLC
CONSTANTS SeriesKey, Buckets          \* Buckets: increasing sequence of integer upper bounds
VARIABLES reg,        \* set of [key, ident, sid]
          cval,       \* sid -> counter value
          hist,       \* sid -> [count, sum, b (bucket counts, Len(Buckets)+1)]
          nSearch,    \* monitor: <<misses, hits>> recorded
          nDb,        \* monitor: function (op, success) -> recorded
          mlast
mvars == <<reg, cval, hist, nSearch, nDb, mlast>>

Ident(kind, name, tags) == [kind |-> kind, name |-> name, tags |-> tags]
KeyOf(ident, perm) == IF SeriesKey = "canonical" THEN <<ident.kind, ident.name, ident.tags>> ELSE <<ident.kind, ident.name, perm>>
Sids == {r.sid : r \in reg}
ZeroHist == [count |-> 0, sum |-> 0, b |-> [i \in 1..(Len(Buckets) + 1) |-> 0]]

\* perm: a sequence enumerating ident.tags; sid: the series handed back
GetOrCreate(ident, perm, sid) ==
    /\ {perm[i] : i \in 1..Len(perm)} = ident.tags /\ Len(perm) = Cardinality(ident.tags)
    /\ LET k == KeyOf(ident, perm) IN
         IF \E r \in reg : r.key = k
           THEN /\ sid = (CHOOSE r \in reg : r.key = k).sid
                /\ UNCHANGED <<reg, cval, hist>>
           ELSE /\ sid \notin Sids
                /\ reg' = reg \cup {[key |-> k, ident |-> ident, sid |-> sid]}
                /\ cval' = IF ident.kind = "counter" THEN [s \in DOMAIN cval \cup {sid} |-> IF s = sid THEN 0 ELSE cval[s]] ELSE cval
                /\ hist' = IF ident.kind \in {"histogram", "timer"} THEN [s \in DOMAIN hist \cup {sid} |-> IF s = sid THEN ZeroHist ELSE hist[s]] ELSE hist
    /\ mlast' = [op |-> "get", sid |-> sid]
    /\ UNCHANGED <<nSearch, nDb>>

Add(sid, n) ==
    /\ sid \in DOMAIN cval
    /\ cval' = [cval EXCEPT ![sid] = @ + n]
    /\ mlast' = [op |-> "add", sid |-> sid]
    /\ UNCHANGED <<reg, hist, nSearch, nDb>>

BucketOf(v) == IF \E i \in 1..Len(Buckets) : v <= Buckets[i]
                 THEN CHOOSE i \in 1..Len(Buckets) : v <= Buckets[i] /\ \A j \in 1..(i - 1) : v > Buckets[j]
                 ELSE Len(Buckets) + 1
Observe(sid, v) ==
    /\ sid \in DOMAIN hist
    /\ hist' = [hist EXCEPT ![sid] = [count |-> @.count + 1, sum |-> @.sum + v, b |-> [@.b EXCEPT ![BucketOf(v)] = @ + 1]]]
    /\ mlast' = [op |-> "observe", sid |-> sid]
    /\ UNCHANGED <<reg, cval, nSearch, nDb>>

\* the percentile rule of the code, transcribed (the property only demands monotonicity in p)
RECURSIVE Cum(_, _)
Cum(b, i) == IF i = 0 THEN 0 ELSE b[i] + Cum(b, i - 1)
Percentile(h, p) ==
    IF h.count = 0 THEN 0
    ELSE LET target == (h.count * p) \div 100
             idx == CHOOSE i \in 1..(Len(Buckets) + 1) : Cum(h.b, i) >= target /\ \A j \in 1..(i - 1) : Cum(h.b, j) < target
         IN IF idx <= Len(Buckets) THEN Buckets[idx] ELSE Buckets[Len(Buckets)]

RecordSearch(hit) ==
    /\ nSearch' = [nSearch EXCEPT ![IF hit THEN 2 ELSE 1] = @ + 1]
    /\ mlast' = [op |-> "recsearch", sid |-> 0]
    /\ UNCHANGED <<reg, cval, hist, nDb>>
RecordDb(o, s) ==
    /\ nDb' = [x \in DOMAIN nDb \cup {<<o, s>>} |-> IF x = <<o, s>> THEN (IF x \in DOMAIN nDb THEN nDb[x] ELSE 0) + 1 ELSE nDb[x]]
    /\ mlast' = [op |-> "recdb", sid |-> 0]
    /\ UNCHANGED <<reg, cval, hist, nSearch>>

---------------------------------------------------------------------------
OneSeriesPerIdentity == \A r1, r2 \in reg : r1.ident = r2.ident => r1 = r2
SidsUnique           == \A r1, r2 \in reg : r1.sid = r2.sid => r1 = r2
HistConsistent == \A s \in DOMAIN hist : Cum(hist[s].b, Len(Buckets) + 1) = hist[s].count
PercentileMonotone ==
    \A s \in DOMAIN hist : \A p1, p2 \in {0, 50, 90, 95, 99, 100} :
        p1 <= p2 => Percentile(hist[s], p1) <= Percentile(hist[s], p2)
=============================================================================
