---------------------------- MODULE MCConfigPath ----------------------------
EXTENDS ConfigPath
MCNames == {"custom", "sys1", "sys2", "assets", "plain", "internal", "fixed"}
MCFallbacks == <<"sys1", "sys2", "assets", "assets", "plain", "internal", "fixed">>
StableOK == Stable
=============================================================================
