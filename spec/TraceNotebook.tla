--------------------------- MODULE TraceNotebook ---------------------------
(* Trace validation of real `wtf save` / `wtf save-pipeline` runs (one process per event, isolated home) *)
EXTENDS Notebook, Json, IOUtils
VARIABLE l
Trace == ndJsonDeserialize(IOEnv.TRACEFILE)
Ev == Trace[l]
Pairs(s) == [i \in 1..Len(s) |-> [c |-> s[i][1], e |-> s[i][2]]]
Obs == [cls |-> Ev.cls, ents |-> Pairs(Ev.ents)]
\* what the driver put at the notebook's path is what loading finds there, and - unless it is damaged - the database used
\* for searching is the main entries followed by it (an absent or blank notebook contributes nothing)
TSet  == Ev.op = "set" /\ SetFile(Obs)
           /\ (Ev.wantcls # "garbage" => (Ev.cls = Ev.wantcls /\ Pairs(Ev.merged) = Pairs(Ev.main) \o Pairs(Ev.ents)))
TSave == Ev.op = "save" /\ ~Ev.crash
           /\ (IF Ev.ok THEN SaveOK([c |-> Ev.c, e |-> Ev.e]) ELSE SaveFail([c |-> Ev.c, e |-> Ev.e]))
           /\ file' = Obs                                             \* what re-loading the notebook yields
           /\ (Ev.ok => (Ev.found /\ Pairs(Ev.merged) = Pairs(Ev.main) \o Ents(file')))   \* searchable; main entries then notebook entries
           /\ ((Ev.ok /\ Ev.pcheck) => Ev.pfound)                                          \* a saved pipeline: by the pipeline search, too
TraceInit == l = 1 /\ file = [cls |-> "missing", ents |-> <<>>] /\ last = [op |-> "set", ok |-> TRUE, e |-> [c |-> 0, e |-> 0]]
TraceNext == l <= Len(Trace) /\ l' = l + 1 /\ (TSet \/ TSave)
TraceSpec == TraceInit /\ [][TraceNext]_<<nvars, l>>
TraceAccepted ==
    LET d == TLCGet("stats").diameter IN
    IF d - 1 = Len(Trace) THEN TRUE ELSE Print(<<"TRACE_REJECTED_AT", d>>, FALSE)
=============================================================================
