------------------------------- MODULE Embed -------------------------------
(***************************************************************************)
(* Optional semantic embeddings (internal/embedding/embedding.go,          *)
(* internal/database/embedding_loader.go, applySemanticBoost).             *)
(* Loader as a state machine over an abstract file:                        *)
(*   claimed : record count claimed by the header                          *)
(*   present : complete records actually in the file                       *)
(*   tail    : "none" | "partial" (a truncated record follows)             *)
(*   unit    : bytes of one record (abstract units)                        *)
(* Steps: ReadHeader, Reserve (allocation sized from the header), then     *)
(* ReadRecord until claimed records were read or the file ends (Fail).     *)
(* Property: memory allocated never exceeds what is proportional to the    *)
(* file's size; the outcome is vectors or an error.                        *)
(* Design switch CountTrusted: "bounded" (reservation limited by what the  *)
(* file can hold) | "header" (reservation = claimed count).                *)
(***************************************************************************)
EXTENDS Integers, TLC
CONSTANTS CountTrusted, Slack       \* Slack: records' worth of allocation allowed beyond the file size
VARIABLES file, pc, read, alloc, outcome
evars == <<file, pc, read, alloc, outcome>>

Size(f) == 1 + f.present + (IF f.tail = "partial" THEN 1 ELSE 0)       \* in record units (header = 1)
ReadHeader == /\ pc = "start"
              /\ pc' = (IF file.header THEN "reserve" ELSE "failed")
              /\ outcome' = (IF file.header THEN outcome ELSE "error")
              /\ UNCHANGED <<file, read, alloc>>
Reserve == /\ pc = "reserve"
           /\ alloc' = (IF CountTrusted = "header" THEN file.claimed
                        ELSE IF file.claimed > Size(file) THEN Size(file) ELSE file.claimed)
           /\ pc' = "reading" /\ UNCHANGED <<file, read, outcome>>
ReadRecord == /\ pc = "reading" /\ read < file.claimed /\ read < file.present
              /\ read' = read + 1
              /\ alloc' = (IF alloc < read + 1 THEN read + 1 ELSE alloc)
              /\ UNCHANGED <<file, pc, outcome>>
Fail == /\ pc = "reading" /\ read < file.claimed /\ read >= file.present
        /\ pc' = "failed" /\ outcome' = "error" /\ UNCHANGED <<file, read, alloc>>
Finish == /\ pc = "reading" /\ read = file.claimed
          /\ pc' = "done" /\ outcome' = "vectors" /\ UNCHANGED <<file, read, alloc>>
Next == ReadHeader \/ Reserve \/ ReadRecord \/ Fail \/ Finish

Proportional == alloc <= Size(file) + Slack
OutcomeOK == (pc \in {"done", "failed"}) => outcome \in {"vectors", "error"}
VectorsOnlyIfComplete == outcome = "vectors" => file.present >= file.claimed
=============================================================================
