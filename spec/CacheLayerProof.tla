-------------------------- MODULE CacheLayerProof --------------------------
(* TLAPS proof of transparency of the caching layer for ANY sets of queries, option fields and database versions,
   provided the key covers every option field and a database replacement invalidates the cache - the two design
   switches whose other values TLC refutes. *)
EXTENDS CacheLayer, TLAPS

ASSUME KeyCoversAll == KeyFields = Fields
ASSUME Invalidates == InvalidateOnUpdate = TRUE

\* every stored answer is what the uncached engine returns now for any request filed under that key
StoreFresh == \A k \in DOMAIN store : store[k] = <<dbv, k[1], k[2]>>
RetFresh == ret.op = "search" => ret.ans = Fresh(dbv, ret.q, ret.o)

LEMMA KeyFresh == \A d, q, o : Fresh(d, q, o) = <<d, KeyOf(q, o)[1], KeyOf(q, o)[2]>>
  BY KeyCoversAll DEF Fresh, KeyOf

THEOREM SearchKeepsInv ==
  ASSUME NEW q, NEW o, NEW m, StoreFresh, Search(q, o, m)
  PROVE StoreFresh' /\ RetFresh'
<1> DEFINE k == KeyOf(q, o)
<1>1. Fresh(dbv, q, o) = <<dbv, k[1], k[2]>>
  BY KeyFresh
<1>2. CASE (on \/ ServeWhenDisabled) /\ k \in DOMAIN store
  <2>1. ret' = [op |-> "search", q |-> q, o |-> o, ans |-> store[k], hit |-> TRUE] /\ UNCHANGED <<store, on, dbv>>
    BY <1>2 DEF Search
  <2>2. store[k] = <<dbv, k[1], k[2]>>
    BY <1>2 DEF StoreFresh
  <2> QED BY <2>1, <2>2, <1>1 DEF StoreFresh, RetFresh
<1>3. CASE ~((on \/ ServeWhenDisabled) /\ k \in DOMAIN store)
  <2>1. /\ ret' = [op |-> "search", q |-> q, o |-> o, ans |-> Fresh(dbv, q, o), hit |-> FALSE]
        /\ \/ store' = [x \in DOMAIN store \cup {k} |-> IF x = k THEN Fresh(dbv, q, o) ELSE store[x]]
           \/ store' = store
        /\ UNCHANGED <<on, dbv>>
    BY <1>3 DEF Search
  <2>2. RetFresh'
    BY <2>1 DEF RetFresh
  <2>3. StoreFresh'
    BY <2>1, <1>1 DEF StoreFresh
  <2> QED BY <2>2, <2>3
<1> QED BY <1>2, <1>3

THEOREM UpdateKeepsInv ==
  ASSUME NEW d, StoreFresh, Update(d)
  PROVE StoreFresh'
  BY Invalidates DEF Update, StoreFresh

THEOREM OthersKeepInv ==
  ASSUME StoreFresh, Vanish \/ Invalidate \/ (\E b \in BOOLEAN : Enable(b))
  PROVE StoreFresh'
  BY DEF Vanish, Invalidate, Enable, StoreFresh
=============================================================================
