------------------------------ MODULE MCLRU ------------------------------
(* Bounded instance of LRU for exhaustive model checking and for dumping  *)
(* the transition relation that the walker turns into tours (binding A).  *)
EXTENDS LRU, Json, CSV, IOUtils

CONSTANTS Keys, Vals, CapReqs, TTLs, MaxCount, MaxTick

Init ==
    /\ ents = <<>> /\ use = <<>>
    /\ ttl \in TTLs
    /\ \E c \in CapReqs : cap = IF c >= 1 THEN c ELSE DefaultCap
    /\ hits = 0 /\ misses = 0 /\ evictions = 0
    /\ last = Ret("new", NoKey, NoVal, FALSE, cap)

Next ==
    \/ \E k \in Keys : Get(k) \/ Delete(k)
    \/ \E k \in Keys, v \in Vals : Put(k, v)
    \/ Clear \/ Sweep \/ SizeOp
    \/ (ttl > 0 /\ \E n \in 1..MaxTick : Tick(n))

Spec == Init /\ [][Next]_vars

\* bound the growing counters
Limit == hits + misses + evictions <= MaxCount

\* observation variable is not part of the state identity
View == <<ents, ttl, cap, hits, misses, evictions, use>>

ActionProps ==
    [][FreshHit /\ HitReturnsLatest /\ PresentLiveIsHit /\ EvictsLRU /\ NoSpuriousEviction
       /\ SweepOnlyExpired /\ StatsExact]_vars

\* --- transition dump (one JSON line per explored transition) -------------
St(e, t, c, h, m, ev) == [ents |-> [i \in 1..Len(e) |-> <<e[i].k, e[i].v, e[i].age>>], ttl |-> t, cap |-> c, h |-> h, m |-> m, e |-> ev]
DumpT ==
    CSVWrite("%1$s", <<ToJson([from |-> St(ents, ttl, cap, hits, misses, evictions),
                               op |-> last',
                               to |-> St(ents', ttl', cap', hits', misses', evictions')])>>,
             IOEnv.DUMPFILE)
=============================================================================
