------------------------------ MODULE MCIndex ------------------------------
EXTENDS Index
CONSTANTS MaxSteps
VARIABLE steps
MCLists == {<<1>>, <<1, 2>>, <<3, 1>>, <<2>>}
AllEvents == {"load", "merge", "replace", "grow"}
OnlyLoads == {"load", "merge"}
Init == cmds = <<>> /\ idxSnap = <<>> /\ rerankSnap = <<>> /\ searched = "no" /\ steps = 0
Step(A) == steps < MaxSteps /\ steps' = steps + 1 /\ A
Next == \/ Step(\E c \in MCLists : Load(c) \/ Replace(c) \/ Grow(c))
        \/ Step(\E a, b \in MCLists : Merge(a, b))
        \/ Step(\E n \in BOOLEAN : Search(n))
Spec == Init /\ [][Next]_<<ivars, steps>>
\* replacing by a list of the same length is the case the lazy step cannot see
=============================================================================
