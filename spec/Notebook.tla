----------------------------- MODULE Notebook -----------------------------
(***************************************************************************)
(* The personal notebook (internal/cli/save.go, pipeline.go, loader.go).   *)
(* file: [cls |-> "missing" | "garbage" | "list", ents |-> entries]; an entry is *)
(* [c |-> identity of its command string, e |-> identity of all six        *)
(* fields].  Save(e) either succeeds - the notebook then holds e in place  *)
(* of the entry with the same command string, or at the end - or reports   *)
(* failure and leaves the file as it was.  The database used for searching *)
(* is the main entries followed by the notebook entries.                   *)
(* Design switch SaveMode: "replace" | "append" (never replaces).          *)
(***************************************************************************)
EXTENDS Integers, Sequences, FiniteSets, TLC
CONSTANTS SaveMode
VARIABLES file, last
nvars == <<file, last>>

IsList(f) == f.cls = "list"
Ents(f) == IF IsList(f) THEN f.ents ELSE <<>>
List(s) == [cls |-> "list", ents |-> s]
HasCmd(s, c) == \E i \in 1..Len(s) : s[i].c = c
ReplaceOrAppend(s, e) ==
    IF SaveMode = "replace" /\ HasCmd(s, e.c)
      THEN LET i == CHOOSE j \in 1..Len(s) : s[j].c = e.c /\ \A k \in 1..(j - 1) : s[k].c # e.c IN [s EXCEPT ![i] = e]
      ELSE Append(s, e)

SaveOK(e) ==
    /\ file.cls # "garbage"
    /\ file' = List(ReplaceOrAppend(Ents(file), e))
    /\ last' = [op |-> "save", ok |-> TRUE, e |-> e]
SaveFail(e) ==                       \* a reported failure never changes the notebook
    /\ file' = file
    /\ last' = [op |-> "save", ok |-> FALSE, e |-> e]
SetFile(f) == file' = f /\ last' = [op |-> "set", ok |-> TRUE, e |-> [c |-> 0, e |-> 0]]

Merged(main) == main \o Ents(file)

\* properties (C08), as action properties on a successful save
Faithful   == (last'.op = "save" /\ last'.ok) => (IsList(file') /\ \E i \in 1..Len(file'.ents) : file'.ents[i] = last'.e)
NeighboursKept ==
    (last'.op = "save" /\ last'.ok) =>
        LET old == Ents(file) new == Ents(file') IN
        /\ \A i \in 1..Len(old) : old[i].c # last'.e.c => (i <= Len(new) /\ new[i] = old[i])
        /\ Len(new) = Len(old) + (IF HasCmd(old, last'.e.c) THEN 0 ELSE 1)
NoNewDuplicate ==
    (last'.op = "save" /\ last'.ok) =>
        Cardinality({i \in 1..Len(Ents(file')) : Ents(file')[i].c = last'.e.c}) <= (IF Cardinality({i \in 1..Len(Ents(file)) : Ents(file)[i].c = last'.e.c}) > 1
                                                                        THEN Cardinality({i \in 1..Len(Ents(file)) : Ents(file)[i].c = last'.e.c}) ELSE 1)
FailureKeepsFile == (last'.op = "save" /\ ~last'.ok) => file' = file
=============================================================================
