---------------------------- MODULE TraceMonitor ----------------------------
(* Histories of the real metrics.PerformanceMonitor validated against Monitor.tla (Export = "asbuilt": what the code does). *)
EXTENDS Monitor, Json, IOUtils, Sequences
VARIABLE l
Trace == ndJsonDeserialize(IOEnv.TRACEFILE)
Ev == Trace[l]
Abs(x) == IF x < 0 THEN -x ELSE x
TBegin  == Ev.op = "begin" /\ on' = TRUE /\ hits' = 0 /\ misses' = 0 /\ durMs' = 0 /\ lastRes' = 0 /\ rep' = NoRep /\ ops' = 0
TEnable == Ev.op = "enable" /\ Enable(Ev.b) /\ Ev.isenabled = Ev.b
TSearch == Ev.op = "search" /\ Search(Ev.hit, Ev.ms, Ev.nres)
\* figures are logged in millionths (ratio) and thousandths (mean, in ms); the rate as rate x uptime, rounded
TReport == /\ Ev.op = "report" /\ Report(Ev.ratetotal)
           /\ Ev.hits = hits /\ Ev.misses = misses /\ Ev.results = lastRes
           /\ (IF hits + misses = 0 THEN Ev.ratio = 0 ELSE Abs(Ev.ratio * (hits + misses) - hits * 1000000) <= hits + misses)
           /\ (IF rep'.avgCount = 0 THEN Ev.avg = 0 ELSE Abs(Ev.avg * rep'.avgCount - rep'.avgSum * 1000) <= rep'.avgCount)
           /\ Ev.goroutines >= 1 /\ Ev.memkb >= 1
TraceInit == l = 1 /\ Init
TraceNext == l <= Len(Trace) /\ l' = l + 1 /\ (TBegin \/ TEnable \/ TSearch \/ TReport)
TraceSpec == TraceInit /\ [][TraceNext]_<<mvars, l>>
TraceAccepted ==
    LET d == TLCGet("stats").diameter IN
    IF d - 1 = Len(Trace) THEN TRUE ELSE Print(<<"TRACE_REJECTED_AT", d>>, FALSE)
=============================================================================
