--------------------------- MODULE TraceContext ---------------------------
EXTENDS Context, Json, IOUtils
VARIABLE l
Trace == ndJsonDeserialize(IOEnv.TRACEFILE)
Ev == Trace[l]
SeqSet(s) == {s[i] : i \in 1..Len(s)}
TCtx == /\ ~Ev.panic
        /\ TypesOK(SeqSet(Ev.files), Ev.types)
        /\ Ev.types = Ev.types2 /\ Ev.types = Ev.types3          \* same directory again; same listing populated in another order
        /\ Ev.boostid = Ev.boostid2 /\ Ev.boostid = Ev.boostid3
        /\ BoostsOK(Ev.boosts)
\* a file name that the analyzer's own detectors compare names with is a marker by the program's own statement: alone in a
\* directory it is recognised (whatever stands between the listing and the detectors must let it through)
TLit == Ev.op = "ctxlit" /\ ~Ev.generic
\* the command line reports the context of the directory it runs in, whatever PWD says
TCtxCli == Ev.op = "ctxcli" /\ Ev.same
\* unrelated files, however many, change nothing: the types are those of the markers alone
TBig == Ev.op = "ctxbig" /\ Ev.same
TraceInit == l = 1
TraceNext == l <= Len(Trace) /\ l' = l + 1 /\ ((Ev.op = "ctx" /\ TCtx) \/ TLit \/ TCtxCli \/ TBig)
TraceSpec == TraceInit /\ [][TraceNext]_l
TraceAccepted ==
    LET d == TLCGet("stats").diameter IN
    IF d - 1 = Len(Trace) THEN TRUE ELSE Print(<<"TRACE_REJECTED_AT", d>>, FALSE)
=============================================================================
