---------------------------- MODULE MCCacheLayer ----------------------------
EXTENDS CacheLayer, Json, CSV, IOUtils
CONSTANTS MaxSteps
VARIABLE steps
xvars == <<cvars, steps>>
\* queries 1 and 2 are case variants of each other, 3 is different
MCFold(q) == IF q = 2 THEN 1 ELSE q
MCFields == {"a", "b"}
Opts == [MCFields -> {0, 1}]
Init == store = <<>> /\ on = TRUE /\ dbv = 1 /\ ret = NoRet /\ steps = 0
Step(A) == steps < MaxSteps /\ steps' = steps + 1 /\ A
Next ==
    \/ Step(\E q \in {1, 2, 3}, o \in Opts, m \in BOOLEAN : Search(q, o, m))
    \/ Step(Vanish) \/ Step(Invalidate) \/ Step(\E b \in BOOLEAN : Enable(b))
    \/ Step(\E d \in {1, 2} : d # dbv /\ Update(d))
Spec == Init /\ [][Next]_xvars
View == <<store, on, dbv, steps>>
TransparentA == [][ret'.op = "search" => ret'.ans = Fresh(dbv', ret'.q, ret'.o)]_xvars
KeyA == {"a"}
StJ(s, o, d, n) == [keys |-> {<<k[1], k[2]["a"], k[2]["b"]>> : k \in DOMAIN s}, on |-> o, dbv |-> d, steps |-> n]
OpJ == CASE ret'.op = "search" -> [op |-> "search", q |-> ret'.q, a |-> ret'.o["a"], b |-> ret'.o["b"], flag |-> ret'.hit]
         [] OTHER -> [op |-> ret'.op, q |-> ret'.q, a |-> 0, b |-> 0, flag |-> ret'.hit]
DumpT == CSVWrite("%1$s", <<ToJson([from |-> StJ(store, on, dbv, steps), op |-> OpJ, to |-> StJ(store', on', dbv', steps')])>>, IOEnv.DUMPFILE)
=============================================================================
