---------------------------- MODULE SearchFlow ----------------------------
(***************************************************************************)
(* The search engine as a pipeline of stages over abstract candidates      *)
(* (internal/database/search_universal.go, search.go, search_cached.go,    *)
(* recovery.go).  A scenario `sc` fixes entry point, options, query kind   *)
(* and corpus; the stages then run deterministically:                      *)
(*    Start -> Score -> (Fallback | Recover)? -> Limit -> Done             *)
(* Scores are abstracted to ranks (document order), so what is checked     *)
(* here is the set-level half of C01/C04/C07: how many results, which      *)
(* documents, on which path.                                               *)
(* Design switches (values describing the property-conforming design are   *)
(* listed first):                                                          *)
(*   FuzzyCap      "limit" | "2limit"   bound applied by the fuzzy path    *)
(*   FallbackGates TRUE | FALSE         fuzzy path applies the filters     *)
(*   OptionGates   TRUE | FALSE         --platform / --no-cross honoured   *)
(*   RecoverCap    TRUE | FALSE         recovery search bounded by limit   *)
(*   ThresholdRule "all" | "positive"   which thresholds are applied       *)
(***************************************************************************)
EXTENDS Corpus, TLC
CONSTANTS FuzzyCap, FallbackGates, OptionGates, RecoverCap, ThresholdRule, Host
VARIABLES sc, stage, cands, path, n
\* cands: the pool the answer is drawn from; n: how many results are returned
fvars == <<sc, stage, cands, path, n>>

\* ---- the synthetic "mix" corpus: one document per (declared platforms, pipeline) combination ----------
Decls == {{}, {"linux"}, {"bash"}, {"linux", "macos"}, {"windows"}, {"powershell"}, {"darwin"},
          {"cross-platform"}, {"solaris"}}
\* q: how well the document matches a misspelt query as a subsequence:
\*    "high" (quality >= 5), "mid" (-30 <= quality < 5), "low" (quality < -30), "none" (no subsequence match)
MixDocs == {[id |-> i, decls |-> d, tool |-> t, pipe |-> p, q |-> ql] :
              i \in {0}, d \in Decls, t \in BOOLEAN, p \in BOOLEAN, ql \in {"high", "mid", "low"}}
\* documents of a corpus (ids are irrelevant at this level: documents are identified by their attributes)
Docs(c) == CASE c = "mix" -> MixDocs
             [] c = "empty" -> {}
             [] OTHER -> {[id |-> 0, decls |-> {}, tool |-> FALSE, pipe |-> FALSE, q |-> "high"]}

Opt == [allplat |-> sc.allplat, plats |-> sc.plats, nocross |-> sc.nocross, ponly |-> sc.ponly]
\* the options as the engine sees them: today Platforms / NoCrossPlatform are accepted and never read
SeenOpt == IF OptionGates THEN Opt ELSE [Opt EXCEPT !.plats = {}, !.nocross = FALSE]
Cls(d, o) == PlatClass(d.decls, d.tool, o, Host)
Eligible(d) == PlatformOK(Cls(d, Opt), Opt) /\ PipelineOK(d.pipe, Opt)          \* what C04 demands
Passes(d)   == PlatformOK(Cls(d, SeenOpt), SeenOpt) /\ PipelineOK(d.pipe, SeenOpt) \* what the gate lets through
EffLimit == IF sc.limit >= 1 THEN sc.limit ELSE sc.deflt

LexHit(d) == sc.query = "lex"
SubHit(d) == sc.query \in {"lex", "typo"} /\ d.q # "none"
Meets(d)  == sc.thr = 0 \/ d.q = "high" \/ (sc.thr < 0 /\ d.q = "mid")     \* quality >= threshold (0 = unset)
ThrOK(d)  == Meets(d) \/ (ThresholdRule = "positive" /\ sc.thr < 0)       \* what the filter lets through

Start == stage = "start" /\ stage' = "score" /\ UNCHANGED <<sc, cands, path, n>>

Score ==
    /\ stage = "score"
    /\ cands' = {d \in Docs(sc.corpus) : LexHit(d) /\ (sc.entry = "pipeline" \/ Passes(d)) /\ (sc.entry = "pipeline" => PipelineOK(d.pipe, Opt))}
    /\ path' = "lexical"
    /\ stage' = "scored"
    /\ UNCHANGED <<sc, n>>

\* typo fallback: only when nothing was scored and fuzzy was asked for (not on the legacy pipeline entry)
Fallback ==
    /\ stage = "scored" /\ cands = {} /\ sc.fuzzy /\ sc.entry # "pipeline"
    /\ cands' = {d \in Docs(sc.corpus) : SubHit(d) /\ ThrOK(d) /\ (FallbackGates => Passes(d))}
    /\ path' = "fuzzy"
    /\ stage' = "fellback"
    /\ UNCHANGED <<sc, n>>

\* the CLI's last-resort recovery search: substring scans, no filters
Recover ==
    /\ stage \in {"scored", "fellback"} /\ cands = {} /\ sc.entry = "cli" /\ sc.query \in {"substr", "partial"}
    /\ cands' = Docs(sc.corpus)
    /\ path' = "recovery"
    /\ stage' = "recovered"
    /\ UNCHANGED <<sc, n>>

Cap == CASE path = "fuzzy" /\ FuzzyCap = "2limit" -> 2 * EffLimit
         [] path = "recovery" /\ ~RecoverCap -> 1000
         [] OTHER -> EffLimit

\* keep at most Cap candidates (which ones is decided by the scores, abstracted away: any of the pool)
Limit ==
    /\ stage \in {"scored", "fellback", "recovered"}
    /\ ~ENABLED Fallback /\ ~ENABLED Recover
    /\ n' = IF Cardinality(cands) > Cap THEN Cap ELSE Cardinality(cands)
    /\ stage' = "done"
    /\ UNCHANGED <<sc, path, cands>>

Next == Start \/ Score \/ Fallback \/ Recover \/ Limit

---------------------------------------------------------------------------
Done == stage = "done"
Bounded     == Done => n <= EffLimit                                   \* C01
AllEligible == Done => \A d \in cands : (path = "recovery" \/ sc.entry = "pipeline" \/ PlatformOK(Cls(d, Opt), Opt))
                                        /\ (path = "recovery" \/ PipelineOK(d.pipe, Opt))       \* C04
FallbackOnlyWhenEmpty ==                                                                \* C07
    path = "fuzzy" => (sc.fuzzy /\ ~\E d \in Docs(sc.corpus) : LexHit(d) /\ Passes(d))
FallbackSound == path = "fuzzy" => \A d \in cands : SubHit(d) /\ Meets(d)                \* C07
FallbackComplete ==                                                                     \* C07
    (Done /\ sc.fuzzy /\ sc.thr = 0 /\ sc.entry # "pipeline" /\ sc.query = "typo"
          /\ \E d \in Docs(sc.corpus) : SubHit(d) /\ Eligible(d)) => cands # {}
=============================================================================
