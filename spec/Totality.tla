----------------------------- MODULE Totality -----------------------------
(***************************************************************************)
(* C10: loading any file and searching with any query and options is       *)
(* total - every call returns (a result or an error) - and the loader      *)
(* classifies what it is given.  A scenario fixes the class of the file    *)
(* content, of the texts inside, of the query, of the options, and the     *)
(* entry point; the call protocol has exactly the outcomes below, a panic, *)
(* a fatal error or a time-out is not among them.                          *)
(***************************************************************************)
EXTENDS Integers, Sequences, FiniteSets, TLC

FileShapes == {"missing", "empty", "nulldoc", "emptylist", "valid", "validextra", "scalar", "map", "listofscalars", "wrongtypes", "deepnest",
               "aliases", "damaged", "binary", "hugelist", "directory", "utf16le", "utf16be"}
TextClasses == {"plain", "nul", "longfields", "punct", "emptyfields", "blankfields", "unicode", "badutf8"}
QueryClasses == {"plain", "short", "nul", "badutf8", "long1000", "punct", "empty", "blank", "repeat300", "unicode", "regexchars"}
OptionClasses == {"default", "limits", "thresholds", "caps", "boostsNaN", "pipelineNaN", "platformsOdd"}
Entries == {"universal", "search", "pipeline", "legacyoptions", "legacyfuzzy", "legacynlp", "cached", "monitored", "suggestions", "recovery"}

\* what loading may answer for a file shape: "loads" | "notfound" | "parse" | "othererror"
LoadAllowed(shape) ==
    CASE shape = "missing" -> {"notfound"}
      [] shape \in {"empty", "nulldoc", "emptylist", "valid", "validextra", "hugelist", "utf16le", "utf16be"} -> {"loads"}      \* every well-formed list of entries loads
      [] shape \in {"scalar", "map", "listofscalars", "damaged", "binary"} -> {"parse"}                    \* cannot be decoded as a list of entries
      [] shape \in {"wrongtypes", "deepnest", "aliases"} -> {"loads", "parse"}                             \* decoder's choice
      [] shape = "directory" -> {"othererror", "parse", "notfound"}
CallAllowed == {"returned"}         \* a search / suggestion / recovery call returns; nothing else is an outcome
=============================================================================
