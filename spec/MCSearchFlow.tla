--------------------------- MODULE MCSearchFlow ---------------------------
EXTENDS SearchFlow, Json, CSV, IOUtils
CONSTANTS Limits, Thrs, Corpora
Scenarios ==
    [entry : {"universal", "search", "pipeline", "cached", "monitored", "cli"},
     limit : Limits, deflt : {5}, nlp : BOOLEAN, fuzzy : BOOLEAN, thr : Thrs,
     ponly : BOOLEAN, pboost : BOOLEAN, allplat : BOOLEAN, plats : {{}, {"windows"}, {"macos", "linux"}}, nocross : BOOLEAN,
     boost : BOOLEAN, query : {"lex", "typo", "substr", "partial", "none"}, corpus : Corpora]
\* option combinations an entry point cannot express are not scenarios
Expressible(s) ==
    /\ (s.entry = "search" => ~s.nlp /\ ~s.fuzzy /\ s.thr = 0 /\ ~s.ponly /\ ~s.pboost /\ ~s.allplat /\ s.plats = {} /\ ~s.nocross /\ ~s.boost)
    /\ (s.entry = "cli" => s.nlp /\ s.fuzzy /\ s.thr < 0 /\ ~s.ponly /\ ~s.pboost /\ s.limit >= 0)
    /\ (s.entry = "pipeline" => ~s.nlp /\ ~s.fuzzy /\ s.thr = 0 /\ s.ponly /\ ~s.allplat /\ s.plats = {} /\ ~s.nocross)
    /\ (~s.fuzzy => s.thr = 0)
Init == sc \in {s \in Scenarios : Expressible(s)} /\ stage = "start" /\ cands = {} /\ path = "none" /\ n = 0
Spec == Init /\ [][Next]_fvars
SetToSeq(S) == IF S = {} THEN <<>> ELSE IF S = {"windows"} THEN <<"windows">> ELSE <<"macos", "linux">>
ScJson == [entry |-> sc.entry, limit |-> sc.limit, nlp |-> sc.nlp, fuzzy |-> sc.fuzzy, thr |-> sc.thr, ponly |-> sc.ponly,
           pboost |-> sc.pboost, allplat |-> sc.allplat, plats |-> SetToSeq(sc.plats), nocross |-> sc.nocross, boost |-> sc.boost,
           query |-> sc.query, corpus |-> sc.corpus]
DumpS == (stage = "start") => CSVWrite("%1$s", <<ToJson(ScJson)>>, IOEnv.DUMPFILE)
MCLimits == {-1, 0, 1, 2, 7, 40}
MCThrs == {-30, 0, 5}
=============================================================================
