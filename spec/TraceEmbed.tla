---------------------------- MODULE TraceEmbed ----------------------------
(* Observations of the real embedding loaders (one child process per file), of paired searches with and without an
   attached embedding index, and of cosine similarity evaluations. *)
EXTENDS Integers, Sequences, FiniteSets, TLC, Json, IOUtils
VARIABLE l
Trace == ndJsonDeserialize(IOEnv.TRACEFILE)
Ev == Trace[l]
SeqSet(s) == {s[i] : i \in 1..Len(s)}
\* loader: vectors or an error, never a crash; allocation proportional to the file's size (KB; 64x + 24 MB of runtime slack)
TLoad == Ev.op = "load"
    /\ Ev.outcome \in {"vectors", "error"}
    /\ Ev.alloc_kb <= 64 * Ev.size_kb + 24000
    /\ (Ev.outcome = "vectors" => Ev.complete)                 \* vectors only when every claimed record was there
\* semantic stage: same candidates, scores only raised, by a bounded factor, list ordered
TSem == Ev.op = "sem"
    /\ ~Ev.panic
    /\ SeqSet(Ev.with) = SeqSet(Ev.without)
    /\ (\A i \in 1..Len(Ev.cmp) : Ev.cmp[i][2] \in {0, 1} /\ Ev.cmp[i][3] = 1)   \* <<doc, cmp(with, without), within (1+alpha) bound>>
    /\ (\A i \in 1..Len(Ev.order) : Ev.order[i] >= 0)
    /\ (Ev.attached = FALSE => Ev.withans = Ev.withoutans)                          \* absent index: exactly as if the feature did not exist
TCos == Ev.op = "cos"
    /\ Ev.sym
    /\ (Ev.guard # "normal" => Ev.cls = "zero")
    /\ Ev.cls \in {"zero", "in"}
TraceInit == l = 1
TraceNext == l <= Len(Trace) /\ l' = l + 1 /\ (TLoad \/ TSem \/ TCos)
TraceSpec == TraceInit /\ [][TraceNext]_l
TraceAccepted ==
    LET d == TLCGet("stats").diameter IN
    IF d - 1 = Len(Trace) THEN TRUE ELSE Print(<<"TRACE_REJECTED_AT", d>>, FALSE)
=============================================================================
