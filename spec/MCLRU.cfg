SPECIFICATION Spec
CONSTANTS
  DefaultCap = 2
  TouchOnGet = TRUE
  TouchOnUpdate = TRUE
  ExpireBy = "created"
  Keys = {1, 2, 3}
  Vals = {1, 2}
  CapReqs = {0, 1, 2, 3}
  TTLs = {0, 1, 2}
  MaxCount = 3
  MaxTick = 1
CONSTRAINT Limit
VIEW View
INVARIANTS Bounded DistinctKeys CountersOK ValueNotOlderThanEntry RecencyOrder
PROPERTIES ActionProps
CHECK_DEADLOCK FALSE
