-------------------------- MODULE TraceConfigPath --------------------------
(* Executions of the real config.Config in a scratch working directory, validated against ConfigPath.tla.            *)
(* Names are the strings the code uses; "exists" is what os.Stat says in that directory when the question is asked.  *)
EXTENDS ConfigPath, Json, IOUtils, TLC
VARIABLE l
Trace == ndJsonDeserialize(IOEnv.TRACEFILE)
Ev == Trace[l]
SeqSet(s) == {s[i] : i \in 1..Len(s)}
TBegin == Ev.op = "begin" /\ exists' = {} /\ configured' = Ev.configured /\ got' = "none"
TTouch == Ev.op = "touch" /\ exists' = exists \cup {Ev.name} /\ UNCHANGED <<configured, got>>
TRemove == Ev.op = "rm" /\ exists' = exists \ {Ev.name} /\ UNCHANGED <<configured, got>>
TConfigure == Ev.op = "configure" /\ Configure(Ev.name)
\* the recorder states which names exist (its own os.Stat); that must be the model's file system, and the answer the model's
TAsk == Ev.op = "ask" /\ SeqSet(Ev.exist) = exists \cap ({configured} \cup FallbackNames)
           /\ Ask /\ got' = Ev.got
TValidate == Ev.op = "validate" /\ Ev.ok = Valid(Ev.max, Ev.db) /\ UNCHANGED cvars
\* the defaults: five results, the bundled database first, the personal database and the directory under the home directory
TDefaults == Ev.op = "defaults" /\ Ev.max = 5 /\ Ev.db = "assets/commands.yml" /\ Ev.cache
               /\ Ev.personalunder /\ Ev.dirunder /\ Valid(Ev.max, Ev.db) /\ UNCHANGED cvars
\* EnsureConfigDir: afterwards the directory exists, whatever was there of it before; calling it again changes nothing
TEnsure == Ev.op = "ensure" /\ Ev.ok = ~Ev.blocked /\ (Ev.ok => Ev.isdir /\ Ev.again) /\ UNCHANGED cvars    \* blocked: a file sits where a directory is needed
TraceInit == l = 1 /\ exists = {} /\ configured = "none" /\ got = "none"
TraceNext == l <= Len(Trace) /\ l' = l + 1
             /\ (TBegin \/ TTouch \/ TRemove \/ TConfigure \/ TAsk \/ TValidate \/ TDefaults \/ TEnsure)
TraceSpec == TraceInit /\ [][TraceNext]_<<cvars, l>>
TraceAccepted ==
    LET d == TLCGet("stats").diameter IN
    IF d - 1 = Len(Trace) THEN TRUE ELSE Print(<<"TRACE_REJECTED_AT", d>>, FALSE)
RealNames == {"x"}
RealFallbacks == <<"/usr/local/share/wtf/commands.yml", "/usr/share/wtf/commands.yml", "assets/commands.yml", "assets/commands.yml",
                   "commands.yml", "internal/database/commands.yml", "commands_fixed.yml">>
=============================================================================
