---------------------------- MODULE MCHistory ----------------------------
EXTENDS History, Json, CSV, IOUtils
CONSTANTS Qs, MaxSteps
MaxReqs == {-1, 0, 1, 2}
FileMaxes == {-3, 0, 1, 2, 5}
VARIABLES steps, nextId
mvars == <<hvars, steps, nextId>>

Files ==
    {NoFile("missing"), NoFile("empty"), NoFile("garbage")} \cup
    {[cls |-> "valid", ents |-> e, max |-> m] : m \in FileMaxes,
       e \in {<<>>, <<[q |-> 1, id |-> 90]>>, <<[q |-> 1, id |-> 90], [q |-> 2, id |-> 91]>>,
              <<[q |-> 2, id |-> 92], [q |-> 1, id |-> 90], [q |-> 2, id |-> 91]>>}}

Init ==
    /\ ents = <<>> /\ crashed = FALSE /\ steps = 0 /\ nextId = 1
    /\ file \in Files
    /\ \E r \in MaxReqs : max = IF r >= 1 THEN r ELSE DefaultMax
    /\ last = HRet("new", 0, TRUE, max)

Step(A) == steps < MaxSteps /\ A /\ steps' = steps + 1
Next ==
    \/ Step(\E q \in Qs : \E b \in 1..3 : AddB(q, nextId, b) /\ nextId' = nextId + 1)
    \/ Step(\E q \in Qs : AddRaw(q, nextId) /\ nextId' = nextId + 1)
    \/ Step(Save /\ UNCHANGED nextId)
    \/ Step(Clear /\ UNCHANGED nextId)
    \/ Step(UNCHANGED nextId /\
            \E e \in {ents, file.ents}, m \in {max, file.max, DefaultMax} \cup FileMaxes : LoadTo(e, m))
    \/ Step(\E f \in Files : f.cls # "valid" /\ SetFile(f) /\ UNCHANGED nextId)

Spec == Init /\ [][Next]_mvars
ActionProps == [][AfterAdd /\ Collapse /\ RoundTrip /\ SaveFaithful]_hvars
View == <<ents, max, file, crashed, steps, nextId>>

StJ == [ents |-> [i \in 1..Len(ents) |-> <<ents[i].q, ents[i].id>>], max |-> max, file |-> file.cls, fmax |-> file.max, fents |-> [i \in 1..Len(file.ents) |-> <<file.ents[i].q, file.ents[i].id>>], steps |-> steps]
StJ2 == [ents |-> [i \in 1..Len(ents') |-> <<ents'[i].q, ents'[i].id>>], max |-> max', file |-> file'.cls, fmax |-> file'.max, fents |-> [i \in 1..Len(file'.ents) |-> <<file'.ents[i].q, file'.ents[i].id>>], steps |-> steps']
DumpT == CSVWrite("%1$s", <<ToJson([from |-> StJ, op |-> [op |-> last'.op, q |-> last'.q, fcls |-> file'.cls], to |-> StJ2])>>, IOEnv.DUMPFILE)
=============================================================================
