"""C04 - platform and pipeline filters hold for every result on every path."""
import json, random
import engine
from c02 import shipped_scenarios

CLS = ["none", "inforce", "cross", "tool", "foreign", "unknown"]


REPLAY = ("TraceSearch", engine.TRACE_CFG % '"C04"')


def signature(ev):
    sc = ev["sc"]
    path = ev["path"].replace("cached-", "")
    for a in ev["attr"]:
        cls = CLS[a[0]] if a[0] < len(CLS) else "unknown"
        ok_plat = sc["allplat"] or cls in ("none", "inforce", "unknown") or (not sc["nocross"] and cls in ("cross", "tool"))
        if not ok_plat:
            opt = "plats" if sc["plats"] else ("nocross" if sc["nocross"] and cls in ("cross", "tool") else "host")
            return "C04|entry=%s|path=%s|gate=platform|opt=%s" % ("pipeline" if sc["entry"] == "pipeline" else "any", path, opt)
        if sc["ponly"] and a[1] != 1:
            return "C04|entry=%s|path=%s|gate=pipeline" % ("pipeline" if sc["entry"] == "pipeline" else "any", path)
    return "C04|other"


def run(ctx):
    q = ctx.quick
    rnd = random.Random(ctx.seed)
    defects = [("fallbackgates", dict(fbgates="FALSE"), "AllEligible"), ("optiongates", dict(optgates="FALSE"), "AllEligible")]
    r, scen = engine.model_and_scenarios(ctx, defects=defects)
    total = len(scen)
    scen = [s for s in scen if s["corpus"] == "mix" and s["query"] in ("lex", "typo")]
    if q:
        scen = engine.sample(scen, 3000, rnd, ["entry", "query", "allplat", "plats", "nocross", "ponly", "fuzzy"])
    extra = [s for s in shipped_scenarios(rnd, 60 if q else 1500)]
    for s in extra:
        s["plats"] = rnd.choice([[], [], ["windows"], ["macos"], ["linux", "macos"]])
        s["nocross"] = rnd.random() < 0.3
    for lim in (40, 7, 0):
        for qk in ("lex", "typo"):
            for pb in (False, True):
                extra.append(dict(entry="pipeline", limit=lim, nlp=False, fuzzy=False, thr=0, ponly=True, pboost=pb, allplat=False,
                                  plats=[], nocross=False, boost=False, query=qk, corpus="mix"))
    # made-up programs whose names begin or end like a recognised tool: the tool rule must not apply to them
    for entry in ("universal", "cached", "monitored", "pipeline"):   # (the deprecated Search* entry points only know the host platform)
        for qk in ("lex", "typo"):
            for plats in ([], ["windows"], ["macos"], ["linux", "macos"]):
                for nocross in (False, True):
                    extra.append(dict(entry=entry, limit=rnd.choice([5, 40, 300]), nlp=rnd.random() < 0.5, fuzzy=entry != "pipeline", thr=0,
                                      ponly=False, pboost=False, allplat=False, plats=plats, nocross=nocross, boost=False, query=qk, corpus="plat"))
    # platform lists with a blank or partial name in them (--platform "linux," / "lin" / "cross"), and pipeline-only
    # searches over commands that merely contain a lone '&' or '>'
    for entry in ("universal", "cached", "pipeline"):
        for qk in ("lex", "typo"):
            for plats in (["linux", ""], [" "], [""], ["lin"], ["cross"], ["power"], ["zzz", ""]):
                for nocross in (False, True):
                    extra.append(dict(entry=entry, limit=300, nlp=rnd.random() < 0.5, fuzzy=entry != "pipeline", thr=0, ponly=False, pboost=False,
                                      allplat=False, plats=plats, nocross=nocross, boost=False, query=qk, corpus=rnd.choice(["plat", "mix"])))
            for allplat in (False, True):
                extra.append(dict(entry=entry, limit=300, nlp=rnd.random() < 0.5, fuzzy=entry != "pipeline", thr=0, ponly=True, pboost=rnd.random() < 0.5,
                                  allplat=allplat, plats=[], nocross=False, boost=False, query=qk, corpus="plat"))
    # a cached answer, then the returned entries edited in place so that the filter in force excludes them, the wrapper told
    # (UpdateDatabase with the slice it serves), the same search again: cached answers obey the filters like fresh ones
    for qk in ("lex", "typo"):
        for nlp in (False, True):
            for plats, ponly, allplat in (([], False, False), (["linux"], False, False), (["macos", "linux"], False, False), ([], True, True), ([], True, False)):
                for corpus in ("mix", "plat"):
                    extra.append(dict(entry="cachededit", limit=300, nlp=nlp, fuzzy=True, thr=0, ponly=ponly, pboost=False, allplat=allplat, plats=plats,
                                      nocross=False, boost=False, query=qk, corpus=corpus, prime="none"))
    tr, info, ok, rej = engine.run_cases(ctx, scen + extra, ["C04"])
    for x in rej:
        ev = json.loads(x["trace"][x["at"] - 1])
        ctx.violation(signature(ev), "entry %s, options %s, query %r, path %s: result attributes <<platform class, pipeline, ..>> %s" %
                      (ev["sc"]["entry"], {k: v for k, v in ev["sc"].items() if k in ("allplat", "plats", "nocross", "ponly", "fuzzy", "nlp")},
                       ev["q"], ev["path"], [[CLS[a[0]], a[1]] for a in ev["attr"]][:10]), ev, name="case")
    n, paths = engine.path_stats(tr)
    cov = {"states": r["distinct"], "transitions": r["generated"], "traces_validated_against_impl": ok,
           "scenarios_total_in_model": total, "scenarios_run": n, "paths": paths, "exhaustive": not q,
           "samples": [json.loads(l)["sc"] for l in open(tr).readlines()[:3]]}
    return "model_checking", cov, [
        "platform classes are assigned generously: a declared name counts as in force if it equals or is a documented alias of a platform in force; documents the harness cannot classify with certainty are 'unknown' and never checked",
        "'recognised tool' is only claimed for git/docker/curl/python/npm; made-up tool names (zq...) are certainly not recognised",
        "the recovery search of the CLI is not among the paths the statement lists and is exempt",
        "host platform is linux (runtime.GOOS of the sandbox)"]
