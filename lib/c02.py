"""C02 - same database, query and options always give the same ranked answer."""
import json, os, random
import engine
from core import Infra


REPLAY = ("TraceSearch", engine.TRACE_CFG % '"C02"')


def signature(ev):
    kinds = sorted(set(k for k, a in zip(ev.get("repkinds", []), ev.get("reps", [])) if a != ev.get("mainans")))
    return "C02|corpus=%s|nlp=%s|path=%s|%s" % (ev["sc"]["corpus"], int(ev["sc"]["nlp"]), ev["path"].replace("cached-", ""), "+".join(kinds) or "suggestions")


def run(ctx):
    q = ctx.quick
    rnd = random.Random(ctx.seed)
    r, scen = engine.model_and_scenarios(ctx)
    scen = [s for s in scen if s["entry"] in ("universal", "search", "pipeline", "cli")]
    base = engine.sample(scen, 250 if q else 4000, rnd, ["entry", "query", "nlp", "corpus"])
    # tie-heavy corpus: the cut at the limit decides which of equal-scoring commands survive
    ties = []
    for lim in (1, 3, 5, 12, 40):
        for nlp in (False, True):
            for fz in (False, True):
                for qk in ("lex", "typo"):
                    ties.append(dict(entry="universal", limit=lim, nlp=nlp, fuzzy=fz, thr=0, ponly=False, pboost=False,
                                     allplat=False, plats=[], nocross=False, boost=False, query=qk, corpus="tie"))
    for lim in (3, 5, 10):   # wide ties on a large corpus (the re-ranker's own cut, parallel scans)
        for nlp in (False, True):
            ties.append(dict(entry="universal", limit=lim, nlp=nlp, fuzzy=False, thr=0, ponly=False, pboost=False,
                             allplat=False, plats=[], nocross=False, boost=False, query="lex", corpus="bigtie"))
    # scheduling-dependent answers show on some calls only (and less often on a busy machine): the NLP cases on the
    # large tie corpus are run several times over, through the universal and the deprecated NLP entry point
    for rep in range(3 if q else 10):
        for lim in (1, 2, 5, 8, 20):
            for entry in ("universal", "legacynlp"):
                ties.append(dict(entry=entry, limit=lim, nlp=True, fuzzy=False, thr=0, ponly=False, pboost=False,
                                 allplat=False, plats=[], nocross=False, boost=False, query="lex", corpus="bigtie", prime="none"))
    # databases that do not come from the YAML loader (literal command list, commands installed at run time, the built-in
    # fallback): the long-lived object has answered many queries, the re-built copy none - both must answer alike
    for corpus in ("lit", "updated", "fallback", "grown"):
        for raw in ("find files", "list files", "find item", "delete item", "show item question", "frobnicate widget", "copy files",
                    "search text in files", "show running process", "list directory"):
            for entry, nlp in (("universal", True), ("universal", False), ("cached", True), ("legacynlp", True), ("legacyoptions", False)):
                ties.append(dict(entry=entry, limit=rnd.choice([3, 5, 10]), nlp=nlp, fuzzy=False, thr=0, ponly=False, pboost=False,
                                 allplat=True, plats=[], nocross=False, boost=False, query="raw", raw=raw, corpus=corpus, prime="none"))
    # main file + notebook with several entries that tie exactly: the merged order must be the same on every load
    for raw in ("frobnicate pipeline", "errors pipeline workflow", "pipeline", "grep error log"):
        for entry, nlp in (("universal", False), ("universal", True), ("cached", True), ("legacyoptions", False), ("pipeline", False)):
            for lim in (2, 3, 5):
                ties.append(dict(entry=entry, limit=lim, nlp=nlp, fuzzy=False, thr=0, ponly=entry == "pipeline", pboost=False,
                                 allplat=True, plats=[], nocross=False, boost=False, query="raw", raw=raw, corpus="merged", prime="none"))
    # the same query asked with a small limit first and a larger one next, on the NLP path of a long-lived database
    for corpus in ("bigtie", "mix"):
        for lim in (8, 20, 40):
            for entry in ("universal", "legacynlp", "cached"):
                ties.append(dict(entry=entry, limit=lim, nlp=True, fuzzy=False, thr=0, ponly=False, pboost=False,
                                 allplat=True, plats=[], nocross=False, boost=False, query="lex", corpus=corpus, prime="limit1"))
    # boost tables whose keys differ only in letter case or surrounding blanks
    for corpus in ("mix", "tie"):
        for entry in ("universal", "cached"):
            for nlp in (False, True):
                for lim in (3, 10):
                    ties.append(dict(entry=entry, limit=lim, nlp=nlp, fuzzy=False, thr=0, ponly=False, pboost=False, allplat=True, plats=[],
                                     nocross=False, boost=True, boostvar=8, query="lex", corpus=corpus))
    # a database with far more distinct words than the shipped one (whatever bounds a vocabulary must bound it the same way every time)
    for raw in ("qaabkz qaabmz frobnicate", "qaaacz widget qabcdz", "frobnicate widget", "qaaaaz qaaabz qaaacz qaaadz"):
        for entry in ("universal", "legacynlp"):
            ties.append(dict(entry=entry, limit=10, nlp=True, fuzzy=False, thr=0, ponly=False, pboost=False, allplat=True, plats=[],
                             nocross=False, boost=False, query="raw", raw=raw, corpus="bigvocab", prime="none"))
    shipped = shipped_scenarios(rnd, 40 if q else 400)
    tr, info, ok, rej = engine.run_cases(ctx, base + ties + shipped, ["C02"], reps=6 if q else 25)
    for x in rej:
        ev = json.loads(x["trace"][x["at"] - 1])
        ctx.violation(signature(ev), "repetitions of one search gave different answers: query %r, answers %s vs main %s (%s)" %
                      (ev["q"], ev["reps"], ev["mainans"], ev["repkinds"]), ev, name="case")
    n, paths = engine.path_stats(tr)
    cov = {"states": r["distinct"], "transitions": r["generated"], "traces_validated_against_impl": ok,
           "evaluations": n, "distinct_nontrivial": sum(1 for l in open(tr) if len(json.loads(l)["main"]) > 1),
           "rule": "scenarios enumerated by TLC from SearchFlow (stratified sample) + tie-heavy corpus + shipped database queries; each run repeated in-process, on a re-loaded copy and (1 in 25) in a separate process; non-trivial = answer with at least two results",
           "samples": [json.loads(l)["sc"] for l in open(tr).readlines()[:3]], "paths": paths}
    return "model_checking", cov, [
        "answer identity = document indexes in order with score bits",
        "GetSuggestions(q, 5) is repeated 4x in-process and once on a re-loaded copy for every case with an empty answer and 1 case in 7 otherwise"]


README_QUERIES = ["compress a directory", "find files by name", "git commit changes", "docker commands", "list files", "disk usage",
                  "create a new directory", "extract tar archive", "search text in files", "kill process by name", "download file from url",
                  "show running processes", "change file permissions", "copy files recursively", "network interfaces ip address",
                  "undo last git commit", "install package", "count lines in file", "replace text in file", "mount usb drive"]


_TOOLS = None


def tool_names():
    """first words of the shipped commands (bare tool names are queries whose candidates get a uniform boost)"""
    global _TOOLS
    if _TOOLS is None:
        import re
        from core import REPO
        names = {}
        for m in re.finditer(r'^- command: ["\']?([A-Za-z][A-Za-z0-9_.+-]{1,20})', open(REPO + "/assets/commands.yml", errors="replace").read(), re.M):
            names[m.group(1).lower()] = names.get(m.group(1).lower(), 0) + 1
        _TOOLS = sorted(n for n, c in names.items() if c >= 3) or ["git", "docker", "tar"]
    return _TOOLS


def shipped_scenarios(rnd, k):
    out = []
    for i in range(k):
        qtext = rnd.choice(README_QUERIES)
        if rnd.random() < 0.35:
            qtext = rnd.choice(tool_names())
        if rnd.random() < 0.3:
            w = qtext.split()
            j = rnd.randrange(len(w))
            if len(w[j]) > 3:
                p = rnd.randrange(1, len(w[j]) - 1)
                w[j] = w[j][:p] + w[j][p + 1:]
            qtext = " ".join(w)
        out.append(dict(entry=rnd.choice(["universal"] * 9 + ["cli"]), limit=rnd.choice([1, 3, 5, 10, 25]), nlp=rnd.random() < 0.7,
                        fuzzy=rnd.random() < 0.7, thr=rnd.choice([0, -30]), ponly=False, pboost=False, allplat=rnd.random() < 0.2,
                        plats=[], nocross=False, boost=rnd.random() < 0.3, query="raw", raw=qtext, corpus="shipped"))
        s = out[-1]
        if s["entry"] == "cli":
            s.update(nlp=True, fuzzy=True, thr=-30)
        if not s["fuzzy"]:
            s["thr"] = 0
    # word fragments: empty lexical answer, many equally good "did you mean" candidates
    for frag in ["fil", "dir", "con", "lst", "prc", "net", "usr", "cmp", "arc", "dsk"][:max(4, k // 10)]:
        out.append(dict(entry="universal", limit=5, nlp=False, fuzzy=False, thr=0, ponly=False, pboost=False, allplat=False,
                        plats=[], nocross=False, boost=False, query="raw", raw=frag, corpus="shipped"))
    return out
