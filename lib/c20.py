"""C20 - letter case and spare whitespace in the query never change the answer."""
import json, random
import engine
from c02 import shipped_scenarios, README_QUERIES


REPLAY = ("TraceSearch", engine.TRACE_CFG % '"C20"')


def signature(ev):
    bad = [vq for vq, a in zip(ev["varqs"], ev["vars"]) if a != ev["mainans"]]
    kinds = set()
    for vq in bad:
        if "K" in vq or "Å" in vq:
            kinds.add("sign-codepoint")
        elif vq.strip() != vq or "  " in vq or "\t" in vq:
            kinds.add("whitespace")
        else:
            kinds.add("case")
    return "C20|entry=%s|path=%s|%s" % ("cli" if ev["sc"]["entry"] == "cli" else "engine", ev["path"].replace("cached-", ""), "+".join(sorted(kinds)))


def run(ctx):
    q = ctx.quick
    rnd = random.Random(ctx.seed)
    r, scen = engine.model_and_scenarios(ctx)
    total = len(scen)
    scen = [s for s in scen if s["query"] in ("lex", "typo") and s["corpus"] in ("mix", "single")]
    scen = engine.sample(scen, 400 if q else 20000, rnd, ["entry", "query", "nlp", "fuzzy", "corpus"])
    extra = shipped_scenarios(rnd, 40 if q else 1500)
    awkward = ["Σίσυφος frobnicate", "straße widget frobnicate", "kelvin frobnicate", "Kill frobnicate widget", "ångström widget",
               "İstanbul frobnicate", "ǆ frobnicate", "ﬁle widget", "FROBNICATE widget", "find FILES by name", "Docker Commands",
               "git COMMIT changes", "disk usage", "comprss fles", "lst fils"]
    for raw in awkward:
        for nlp in (False, True):
            for corpus in ("mix", "shipped"):
                extra.append(dict(entry=rnd.choice(["universal", "cached", "cli"] if corpus == "mix" else ["universal", "cached"]), limit=5, nlp=nlp, fuzzy=True, thr=0, ponly=False, pboost=False,
                                  allplat=False, plats=[], nocross=False, boost=False, query="raw", raw=raw, corpus=corpus))
    # the deprecated public entry points (NLP / fuzzy / options searches) answer case variants alike, too
    for raw in ["Get disk usage", "The Frobnicate widget", "Find FILES by name", "frobnicate Widget", "Frobnicte", "List The files"]:
        for entry in ("legacynlp", "legacyfuzzy", "legacyoptions"):
            for corpus in ("mix", "shipped"):
                extra.append(dict(entry=entry, limit=5, nlp=entry == "legacynlp", fuzzy=entry != "legacyoptions", thr=0, ponly=False, pboost=False,
                                  allplat=False, plats=[], nocross=False, boost=False, query="raw", raw=raw, corpus=corpus))
    # every letter of the alphabet in some query with a lexical answer, on every entry point (hand-rolled folds, lookup tables)
    letters = "abcdefghijklmnopqrstuvwxyz"
    for i in range(0, 26, 2):
        raw = "%stool %stool" % (letters[i] * 3, letters[i + 1] * 3)
        for entry in ("universal", "cached", "pipeline", "legacyoptions", "legacyfuzzy", "legacynlp", "cli"):
            extra.append(dict(entry=entry, limit=5, nlp=entry in ("legacynlp", "cli"), fuzzy=entry in ("legacyfuzzy", "universal"), thr=0, ponly=False,
                              pboost=False, allplat=False, plats=[], nocross=False, boost=False, query="raw", raw=raw, corpus="alpha"))
    # command lines whose answer comes from the last-resort recovery searches (nothing matches lexically or as a typo)
    for qk in ("substr", "partial"):
        for plats in ([], ["windows"], ["linux"]):
            for lim in (5, 20):
                extra.append(dict(entry="cli", limit=lim, nlp=True, fuzzy=True, thr=-30, ponly=False, pboost=False, allplat=False, plats=plats,
                                  nocross=False, boost=False, query=qk, corpus="mix"))
    # ... because the only commands containing the query belong to another platform (the recovery searches ignore platforms)
    for raw in ("git mwibhonc", "curl pserdwaf", "git mwibhonc entry", "zq8u lumqesti"):
        for lim in (5, 20):
            extra.append(dict(entry="cli", limit=lim, nlp=True, fuzzy=True, thr=-30, ponly=False, pboost=False, allplat=False, plats=["linux"],
                              nocross=True, boost=False, query="raw", raw=raw, corpus="uniq"))
    # a query just under the length limit whose re-spelling with wider characters (KELVIN SIGN: 3 bytes for 1) is over it
    filler = " ".join("k%dkk" % i for i in range(150))           # 150 unknown words, about 900 bytes
    for tail in ("frobnicate widget", "delete item", "frobnicte"):
        for entry in ("universal", "cached", "search"):
            for nlp in (False, True):
                extra.append(dict(entry=entry, limit=5, nlp=nlp, fuzzy=True, thr=0, ponly=False, pboost=False, allplat=True, plats=[],
                                  nocross=False, boost=False, query="raw", raw=(filler + " " + tail)[-990:].strip(), corpus="mix"))
    # the same request asked before with one option flipped (in the original spelling): the re-spelt query and the original get the same answer
    for entry in ("cached", "monitored"):
        for qk in ("lex", "typo"):
            for prime in ("nocross", "allplat", "ponly", "plats"):
                for nocross in (False, True):
                    for plats in ([], ["linux"], ["windows"]):
                        extra.append(dict(entry=entry, limit=20, nlp=rnd.random() < 0.5, fuzzy=True, thr=0, ponly=False, pboost=False, allplat=False,
                                          plats=plats, nocross=nocross, boost=False, query=qk, corpus=rnd.choice(["plat", "mix"]), prime=prime))
    # a query that is exactly the name of a command (its first word), on the entry points that orchestrate exact + typo search
    for name in ("zqax", "zqzx", "zqmx", "zqkx"):
        for entry in ("legacyfuzzy", "legacynlp", "legacyoptions", "universal", "pipeline"):
            for thr in (0, -30):
                extra.append(dict(entry=entry, limit=5, nlp=False, fuzzy=entry != "legacyoptions", thr=thr, ponly=False, pboost=False, allplat=True,
                                  plats=[], nocross=False, boost=False, query="raw", raw=name, corpus="alpha"))
    # an embedding index whose vocabulary has a word with a capital outside ASCII; a project directory whose Makefile target is a query word
    for raw in ("\u00fcber widget", "\u00fcber frobnicate", "unter widget", "frobnicate \u00fcber"):
        for entry in ("universal", "cached"):
            for nlp in (False, True):
                extra.append(dict(entry=entry, limit=rnd.choice([1, 3, 5]), nlp=nlp, fuzzy=False, thr=0, ponly=False, pboost=False, allplat=True, plats=[],
                                  nocross=False, boost=False, query="raw", raw=raw, corpus="semuni"))
    for raw in ("deploy app", "app deploy", "deploy status", "lint app deploy"):
        for lim in (1, 2):
            extra.append(dict(entry="cli", limit=lim, nlp=True, fuzzy=True, thr=-30, ponly=False, pboost=False, allplat=True, plats=[],
                              nocross=False, boost=False, query="raw", raw=raw, corpus="pair"))
    for s in extra:
        if s["entry"] == "cli":
            s.update(nlp=True, fuzzy=True, thr=-30)
    tr, info, ok, rej = engine.run_cases(ctx, scen + extra, ["C20"])
    for x in rej:
        ev = json.loads(x["trace"][x["at"] - 1])
        bad = [vq for vq, a in zip(ev["varqs"], ev["vars"]) if a != ev["mainans"]]
        ctx.violation(signature(ev), "query %r and its re-spelling(s) %r receive different answers (entry %s, path %s, nlp %s)" %
                      (ev["q"], bad[:3], ev["sc"]["entry"], ev["path"], ev["sc"]["nlp"]), ev, name="case")
    n, paths = engine.path_stats(tr)
    nvars = sum(len(json.loads(l)["vars"]) for l in open(tr))
    cov = {"states": r["distinct"], "transitions": r["generated"], "traces_validated_against_impl": ok,
           "scenarios_total_in_model": total, "scenarios_run": n, "respelled_queries_run": nvars, "paths": paths,
           "samples": [{"q": json.loads(l)["q"], "varqs": json.loads(l)["varqs"]} for l in open(tr).readlines()[-3:]]}
    return "model_checking", cov, [
        "re-spellings replace a character r by r' only when ToLower(r') == ToLower(r) (upper, title, alternating case; KELVIN SIGN / ANGSTROM SIGN for k / å); others (e.g. U+0130) are not paired",
        "white-space paddings are applied at the CLI only (the engine API is not claimed to squeeze white space)",
        "answers are compared by document indexes in order with score bits"]
