"""C09 - an interrupted or failed write never damages the notebook or the history."""
import json, os
from core import Infra

MC_CFG = """SPECIFICATION ASpec
CONSTANTS
  WriteMode = "%s"
  HadOld = %s
INVARIANTS Intact ReportsFailure
CHECK_DEADLOCK FALSE
"""
TRACE_CFG = """SPECIFICATION TraceSpec
CONSTANTS
  WriteMode = "tmp+rename"
  HadOld = TRUE
INVARIANTS NeverDamaged
POSTCONDITION TraceAccepted
CHECK_DEADLOCK FALSE
"""


REPLAY = ("TraceAtomic", TRACE_CFG)


def signature(events, at):
    ev = json.loads(events[at - 1]) if 0 < at <= len(events) else {}
    if ev.get("op") == "sys":
        return "C09|%s|%s|syscall=%s" % (ev["file"], ev["cmd"], ev["call"])
    if ev.get("op") == "fault":
        kind = ev["kind"].split(":")[0] if ev["kind"].startswith("inject") else ev["kind"]
        what = ev["after"] if ev["after"] not in ("old", "new") else ("unloadable" if not ev["loads"] else "success-reported-without-effect")
        return "C09|%s|%s|%s|%s" % (ev["file"], ev["cmd"], kind, what)
    return "C09|%s" % ev.get("op")


def run(ctx):
    q = ctx.quick
    ctx.wtf()
    states = trans = 0
    for had in ("TRUE", "FALSE"):
        r = ctx.model_check("AtomicWrite", MC_CFG % ("tmp+rename", had), name="AtomicWrite-exh-%s" % had, workers=2)
        states += r["distinct"]; trans += r["generated"]
    ctx.model_check("AtomicWrite", MC_CFG % ("inplace", "TRUE"), name="AtomicWrite-defect-inplace", workers=2, expect_violation=("Intact", "ReportsFailure"))
    # unbounded safety of the conforming design: TLAPS proof that temp-file + rename keeps the target intact
    # two consecutive runs, the first one killed at any step: what the second inherits (leftover temporary file)
    runs_cfg = "SPECIFICATION RSpec\nCONSTANT TmpOpen = \"%s\"\nINVARIANTS NeverMixed SecondRunTakesEffect\nCHECK_DEADLOCK FALSE\n"
    r5 = ctx.model_check("AtomicRuns", runs_cfg % "fresh", name="AtomicRuns-exh", workers=1)
    states, trans = states + r5["distinct"], trans + r5["generated"]
    ctx.model_check("AtomicRuns", runs_cfg % "keep", name="AtomicRuns-defect-keep", workers=1, expect_violation=("NeverMixed", "SecondRunTakesEffect"))
    ctx.tlaps("AtomicWriteProof")
    tr = os.path.join(ctx.work, "atomic.ndjson")
    i = ctx.run_vh(["atomic-run", "-out", tr, "-every", 9 if q else 1], timeout=3000)
    ok, rej = ctx.validate_traces(tr, "TraceAtomic", TRACE_CFG, max_rejects=8)
    for x in rej:
        evs, at = x["trace"], x["at"]
        ev = json.loads(evs[at - 1])
        ctx.violation(signature(evs, at), "%s" % json.dumps({k: v for k, v in ev.items() if v not in ("", 0, None)})[:400],
                      {"rejected_at": at, "events": [json.loads(e) for e in evs[:at + 1]]}, name=ev.get("op", "ev"))
    kinds = {}
    nf = 0
    for l in open(tr):
        e = json.loads(l)
        if e["op"] == "fault":
            nf += 1
            k = "%s/%s/%s" % (e["file"], e["kind"].split("=")[0], e["after"])
            kinds[k] = kinds.get(k, 0) + 1
    cov = {"evaluations": nf, "distinct_nontrivial": sum(1 for k in kinds), "fault_outcomes": kinds,
           "rule": "faults: for each of 8 (file, command, old size) scenarios - the write cut after k bytes (RLIMIT_FSIZE) for every%s prefix length, and an error / SIGKILL injected at every write-path system call (create, write, fsync, fchmod, close, rename; strace); distinct = (file, fault kind, outcome) combinations" % (" 9th" if q else ""),
           "samples": [json.loads(l) for l in open(tr).readlines()[:6]], "states": states, "transitions": trans,
           "traces_validated_against_impl": ok, "scenarios": i.get("scenarios")}
    return "fault_enumeration", cov, [
        "the system calls of the fault-free run are recorded with strace -f -y and validated by TLC against AtomicWrite.tla (tmp+rename mode): a truncating open of the live file has no action",
        "new content = what the fault-free run leaves; notebook compared byte-wise, history by its sequence of queries (time stamps differ between runs)",
        "errors / SIGKILL are injected at the ordinals (main thread) at which the fault-free run created, wrote, synced, chmod-ed, closed or renamed the target or a file beside it; failing reads are outside the statement",
        "the history update's failure is not reported by design (errors ignored); 'reports failure' is required of the save commands only"]
