"""C07 - typo fallback runs only when nothing matches and returns genuine matches."""
import json, random
import engine
from c02 import shipped_scenarios


REPLAY = ("TraceSearch", engine.TRACE_CFG % '"C07"')


def signature(ev):
    sc = ev["sc"]
    if ev["hasoff"] and ev["off"] and ev["mainans"] != ev["offans"]:
        return "C07|neutral|nlp=%d" % int(sc["nlp"])
    if ev["path"].endswith("fuzzy"):
        if any(a[2] != 1 for a in ev["attr"]):
            return "C07|sound|not-a-subsequence"
        if sc["thr"] != 0 and any(a[3] < sc["thr"] for a in ev["attr"]):
            return "C07|sound|below-threshold|thr=%s" % ("neg" if sc["thr"] < 0 else "pos")
        qs = [a[3] for a in ev["attr"]]
        if any(qs[i] < qs[i + 1] for i in range(len(qs) - 1)) or any(c < 0 for c in ev["cmp"]):
            return "C07|order"
    if sc["fuzzy"] and sc["thr"] == 0 and ev["elgsub"] and not ev["main"]:
        return "C07|complete"
    return "C07|other"


def run(ctx):
    q = ctx.quick
    rnd = random.Random(ctx.seed)
    defects = [("threshold", dict(thr="positive"), "FallbackSound")]
    r, scen = engine.model_and_scenarios(ctx, defects=defects)
    total = len(scen)
    scen = [s for s in scen if s["fuzzy"] and s["entry"] != "cli"]
    if q:
        scen = engine.sample(scen, 3000, rnd, ["entry", "query", "thr", "nlp", "corpus", "ponly", "limit"])
    extra = shipped_scenarios(rnd, 80 if q else 2000)
    for s in extra:
        s["fuzzy"] = True
        s["thr"] = rnd.choice([0, -30, -60, 5, 40, 1000, -110, -400])
        if s["entry"] == "cli":
            s["entry"] = "universal"
    # fragments, one-letter and punctuation-only queries on the synthetic corpus
    for raw in ["f", "fr", "zq", "x", "-", "--", "|", ".", "frob", "wdgt", "nmbr", "frobnicatewidget", "FROBNICTE", "fRoB"]:
        for thr in (0, -30, 5, 30, 1000, -110, -300):
            for nlp in (False, True):
                extra.append(dict(entry="universal", limit=rnd.choice([1, 5, 50]), nlp=nlp, fuzzy=True, thr=thr, ponly=False, pboost=False,
                                  allplat=rnd.random() < 0.5, plats=[], nocross=False, boost=False, query="raw", raw=raw, corpus="mix"))
    # typo queries with characters the NLP cleaner removes (? ! + , : / and letters outside ASCII): the fallback matches the
    # query as typed
    for raw in ("frobnicte?", "frob/nicte", "wdgt,nmbr", "frobnict\u00e9", "frbnct!", "wdgt+nmbr", "zq1:frbn", "frobnicte \u65e5\u672c"):
        for thr in (0, -30):
            for nlp in (False, True):
                for entry in ("universal", "cached"):
                    extra.append(dict(entry=entry, limit=rnd.choice([1, 5, 50]), nlp=nlp, fuzzy=True, thr=thr, ponly=False, pboost=False,
                                      allplat=True, plats=[], nocross=False, boost=False, query="raw", raw=raw, corpus="mix"))
    # words the index does not know but whose NLP expansion hits it: the plain answer exists only through NLP terms
    for nlp in (True, False):
        for lim in (1, 5, 50):
            for thr in (0, -30):
                extra.append(dict(entry=rnd.choice(["universal", "cached"]), limit=lim, nlp=nlp, fuzzy=True, thr=thr, ponly=False, pboost=False,
                                  allplat=False, plats=[], nocross=False, boost=False, query="nlpword", corpus="mix"))
    # one made-up word per entry, one letter dropped: the only commands containing the query in order are known, so the
    # completeness clause is decided exactly for every platform class; each case follows a search with the flag flipped
    words = ["blorptak", "cemvudiz", "dwyfnosk", "fyxgrelm", "ghulvamp", "hjenkwis", "jopmzarb", "kravdyxo", "lumqesti",
             "mwibhonc", "nyzkoplu", "pserdwaf", "quilmbex", "rhaxtovi", "sbegnuly", "tuzwimka", "vogpcyre", "wixjadum"]
    for w in words:
        for nocross in (False, True):
            for plats in ([], ["windows"], ["macos"]):
                i = rnd.randrange(1, len(w) - 1)
                extra.append(dict(entry=rnd.choice(["universal", "universal", "cached", "legacyfuzzy"]), limit=rnd.choice([1, 5, 50]),
                                  nlp=rnd.random() < 0.3, fuzzy=True, thr=0, ponly=False, pboost=False, allplat=False, plats=plats,
                                  nocross=nocross, boost=False, query="raw", raw=w[:i] + w[i + 1:], corpus="uniq",
                                  prime=rnd.choice(["nocross", "nocross", "plats", "allplat", "limitbig", "none"])))
    # the fallback with a pipeline boost in force: order and reported scores must still agree
    for entry in ("universal", "cached", "monitored"):     # (the deprecated SearchWithFuzzy merges both answers by design)
        for nlp in (False, True):
            for raw in ("frobnicte", "frobnicat widgt", "wdgt nmbr"):
                extra.append(dict(entry=entry, limit=50, nlp=nlp, fuzzy=True, thr=0, ponly=False, pboost=True, allplat=True, plats=[],
                                  nocross=False, boost=False, query="raw", raw=raw, corpus="mix"))
    for raw in ("blrptak", "cemvdiz", "dwyfnsk", "limv", "limvar", "robz", "obzuk", "glimvrn"):
        for entry in ("universal", "cached"):
            for nlp in (False, True):
                extra.append(dict(entry=entry, limit=50, nlp=nlp, fuzzy=True, thr=0, ponly=False, pboost=True, allplat=True, plats=[],
                                  nocross=False, boost=False, query="raw", raw=raw, corpus="uniq"))
    # typo searches on a database whose commands were replaced by as many others after an earlier typo search
    for raw in ("frobnicte", "zzzz", "wdgt nmbr", "frbnct"):
        for entry in ("universal", "cached"):
            for nlp in (False, True):
                extra.append(dict(entry=entry, limit=rnd.choice([5, 50]), nlp=nlp, fuzzy=True, thr=0, ponly=False, pboost=False, allplat=True, plats=[],
                                  nocross=False, boost=False, query="raw", raw=raw, corpus="swapped"))
    tr, info, ok, rej = engine.run_cases(ctx, scen + extra, ["C07"])
    for x in rej:
        ev = json.loads(x["trace"][x["at"] - 1])
        ctx.violation(signature(ev), "entry %s, query %r, thr %s, nlp %s, path %s: main %s / fuzzy-off %s; <<.., subsequence, quality>> %s" %
                      (ev["sc"]["entry"], ev["q"], ev["sc"]["thr"], ev["sc"]["nlp"], ev["path"], ev["main"][:6], ev["off"][:6],
                       [a[2:] for a in ev["attr"]][:10]), ev, name="case")
    n, paths = engine.path_stats(tr)
    cov = {"states": r["distinct"], "transitions": r["generated"], "traces_validated_against_impl": ok,
           "scenarios_total_in_model": total, "scenarios_run": n, "paths": paths, "exhaustive": not q,
           "samples": [json.loads(l)["sc"] for l in open(tr).readlines()[:3]]}
    return "model_checking", cov, [
        "match quality is the matcher's own integer score of the query against the returned command's text (command + ' ' + description), recomputed per result",
        "the subsequence test is the harness' own (case folded with ToLower)",
        "completeness is only demanded when a document that is certainly eligible contains the query as a subsequence",
        "threshold 0 means 'no threshold set' (the option's zero value)"]
