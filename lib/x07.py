"""X07 (specification growth, not a listed property) - `wtf alias add | list | remove`: Alias.tla model-checked with names
confined to the alias directory and as built, sessions of the real binary in scratch home directories validated against
the as-built model, and the deviations the model predicts looked for in the recorded sessions."""
import json, os
from core import Infra, VERIF

MC_CFG = """SPECIFICATION Spec
CONSTANTS
  Names <- MCNames
  Seeded <- MCSeeded
  Names_ = "%s"
INVARIANTS NeedsDir
PROPERTIES OnlyTheNamed AddedIsListed %s
"""
TRACE_CFG = """SPECIFICATION TraceSpec
CONSTANTS
  Names <- NoNames
  Seeded <- NoNames
  Names_ = "asbuilt"
POSTCONDITION TraceAccepted
CHECK_DEADLOCK FALSE
"""


def run(ctx):
    q = ctx.quick
    ctx.wtf()
    r = ctx.tlc("MCAlias", MC_CFG % ("confined", "Confined DirKept"), name="alias-confined", workers=2)
    if r["error"] or "is violated" in r["out"] or not r["distinct"]:
        raise Infra("X07: Alias.tla does not hold with confined names: %s" % (r["error"] or r["out"][-800:]))
    dev = {}
    for prop in ("Confined", "DirKept"):
        r2 = ctx.tlc("MCAlias", MC_CFG % ("asbuilt", prop), name="alias-" + prop, workers=2)
        dev[prop] = ("Action property %s is violated" % prop) in r2["out"]
    tr = os.path.join(ctx.work, "alias.ndjson")
    i = ctx.run_vh(["alias-run", "-out", tr, "-sessions", 16 if q else 200, "-len", 25 if q else 50], timeout=3000)
    ok, rej = ctx.validate_traces(tr, "TraceAlias", TRACE_CFG, max_rejects=6)
    kinds = {}
    for x in rej:
        evs, at = x["trace"], x["at"]
        ev = json.loads(evs[at - 1])
        k = "crash in alias %s" % ev["op"] if ev.get("crash") else "alias %s of a %s name: the files afterwards are not the as-built specification's" % (ev["op"], ev.get("kind") or "-")
        kinds.setdefault(k, []).append([json.loads(e) for e in evs[:at]])
    for k, v in kinds.items():
        p = ctx.save_replay("alias", {"finding": k, "events": v[0]})
        print("EXTENSION-FINDING: component=cli alias: %s (%d sessions, e.g. %s)" % (k, len(v), p))
    lines = [json.loads(l) for l in open(tr)]
    ops, seen, prev = {}, {"Confined": [], "DirKept": []}, None
    for e in lines:
        kk = e["op"] + ("/" + e["kind"] if e.get("kind") else "") + ("" if e["ok"] or e["op"] == "begin" else " refused")
        ops[kk] = ops.get(kk, 0) + 1
        if e["op"] != "begin":
            if e["touched"]:
                seen["Confined"].append(e)
            if prev is not None and prev["there"] and not e["there"]:
                seen["DirKept"].append(e)
        prev = e
    text = {"Confined": "`wtf alias add <name>` / `remove <name>` write and delete files outside the alias directory when the name contains `..` (e.g. `wtf alias add ../../../.bashrc` overwrites ~/.bashrc with a launcher script, `wtf alias remove ../../../.bashrc` deletes it)",
            "DirKept": "`wtf alias remove \"\"` (or `.`) removes the alias directory itself when it is empty"}
    for prop in seen:
        if dev.get(prop) and seen[prop]:
            ex = seen[prop][0]
            p = ctx.save_replay("alias-" + prop, {"finding": text[prop], "event": ex})
            print("EXTENSION-FINDING: component=cli alias: %s - predicted by Alias.tla (%s fails as built), observed in %d real commands, e.g. %s"
                  % (text[prop], prop, len(seen[prop]), p))
        elif bool(dev.get(prop)) != bool(seen[prop]):
            print("X07 note: %s - model says %s, real sessions say %s" % (prop, dev.get(prop), bool(seen[prop])))
    # binding self-test: a listing with one alias dropped must be rejected
    bad = None
    for k, e in enumerate(lines):
        if e["op"] == "list" and e["listed"]:
            first = next(j for j in range(k, -1, -1) if lines[j]["op"] == "begin")
            bad = [dict(x) for x in lines[first:k + 1]]
            bad[-1]["listed"] = bad[-1]["listed"][1:]
            break
    if bad is None:
        raise Infra("X07: no non-empty listing was recorded")
    p = os.path.join(ctx.work, "alias-selftest.ndjson")
    open(p, "w").write("".join(json.dumps(e, separators=(",", ":")) + "\n" for e in bad))
    ok2, rej2 = ctx.validate_traces(p, "TraceAlias", TRACE_CFG, max_rejects=1)
    if not rej2:
        raise Infra("X07 binding self-test failed: a listing with one alias missing was accepted")
    cov = {"model": {"states_confined": r["distinct"], "as_built_deviations": dev}, "sessions": i.get("sessions"), "commands": i.get("events"), "by_command": ops,
           "as_built_observed": {k: len(v) for k, v in seen.items()}, "traces_validated_against_impl": ok, "findings": {k: len(v) for k, v in kinds.items()},
           "binding_selftest": "a listing with one alias dropped is rejected", "samples": lines[1:4]}
    os.makedirs(os.path.join(VERIF, "evidence-extras"), exist_ok=True)
    json.dump({"id": "X07", "component": "internal/cli (alias sub-commands)", "tier": ctx.tier, "seed": ctx.seed, "coverage": cov},
              open(os.path.join(VERIF, "evidence-extras", "X07.json"), "w"), indent=1)
    print("X07 done: %d sessions, %d rejected" % (ok + len(rej), len(rej)))
    raise SystemExit(0)
