"""C15 - loading always ends with a usable database, without futile retries."""
import json, os, random
from core import Infra

MC_CFG = """SPECIFICATION Spec
CONSTANTS
  Classifier = "%(cls)s"
  MinOne = %(minone)s
INVARIANTS Usable RealIffLoads NoFutileRetry AttemptBudget WaitsOK
CHECK_DEADLOCK FALSE
%(extra)s
"""
TRACE_CFG = """SPECIFICATION TraceSpec
CONSTANTS
  Classifier = "unwrap"
  MinOne = TRUE
INVARIANTS Usable RealIffLoads NoFutileRetry AttemptBudget WaitsOK
PROPERTIES StartAfterDone
POSTCONDITION TraceAccepted
CHECK_DEADLOCK FALSE
"""


REPLAY = ("TraceLoader", TRACE_CFG)


def signature(events, at):
    ev = json.loads(events[at - 1]) if 0 < at <= len(events) else {}
    first = json.loads(events[0])
    main, pers = first.get("main"), first.get("personal")
    failing = pers if main in ("ok", "empty", "utf16") else main
    if ev.get("op") == "clipath":
        return "C15|command-line|layout=%s|database-flag=%s|%s" % (ev.get("layout"), ev.get("dbflag"), "main" if not ev.get("found") else "notebook")
    parts = ["C15", str(ev.get("op"))]
    if ev.get("op") in ("attempt", "delay"):
        parts.append("fault=%s" % failing)
    if ev.get("op") == "ret":
        parts.append("kind=%s" % ev.get("kind"))
        if first.get("maxatt", 1) < 1:
            parts.append("maxatt<1")
    return "|".join(parts)


def run(ctx):
    q = ctx.quick
    r = ctx.model_check("MCLoader", MC_CFG % dict(cls="unwrap", minone="TRUE", extra=""), name="MCLoader-exh")
    ctx.model_check("MCLoader", MC_CFG % dict(cls="shallow", minone="TRUE", extra=""), name="MCLoader-defect-shallow",
                    expect_violation="NoFutileRetry")
    ctx.model_check("MCLoader", MC_CFG % dict(cls="unwrap", minone="FALSE", extra=""), name="MCLoader-defect-zero-attempts",
                    expect_violation=("Usable", "AttemptBudget", "RealIffLoads"))
    dump = os.path.join(ctx.work, "loader-scen.ndjson")
    r2 = ctx.tlc("MCLoader", MC_CFG % dict(cls="unwrap", minone="TRUE", extra="CONSTRAINT DumpS"), name="MCLoader-dump",
                 env={"DUMPFILE": dump})
    if r2["error"] or r2["violated"]:
        raise Infra("scenario dump failed: %s %s" % (r2["error"], r2["violated"]))
    scen = []
    seen = set()
    for line in open(dump):
        line = line.strip()
        if not line or line in seen:
            continue
        seen.add(line)
        c = json.loads(line)
        if isinstance(c, str):
            c = json.loads(c)
        scen.append({"main": c["main"], "personal": c["personal"], "backup": "", "maxatt": c["maxatt"],
                     "base": c["base"] * 1000, "factor": float(c["factor"]), "cap": c["cap"] * 1000, "heal": c["heal"]})
    total = len(scen)
    rnd = random.Random(ctx.seed)
    if q:
        rnd.shuffle(scen)
        # every (main, personal, maxatt) combination at least once, then a sample of the rest
        keep, have = [], set()
        for s in scen:
            k = (s["main"], s["personal"], s["maxatt"], s["heal"])
            if k not in have:
                have.add(k)
                keep.append(s)
        scen = keep + scen[:700]
    # beyond the model's grid: random configurations (fractional factors, large bases, caps below the base)
    faults = ["ok", "missing", "perm", "isdir", "malformed", "empty", "utf16"]
    for _ in range(150 if q else 1500):
        scen.append({"main": rnd.choice(faults), "personal": rnd.choice(faults), "backup": rnd.choice(["", "ok", "malformed"]),
                     "maxatt": rnd.randint(-2, 5), "base": rnd.choice([0, 1, 137, 1000, 2500]),
                     "factor": rnd.choice([1.0, 1.5, 2.0, 10.0]), "cap": rnd.choice([0, 1, 500, 1000, 4000]),
                     "heal": rnd.choice([0, 0, 1, 2, 3])})
    # long retry runs with tiny caps: the exponential must saturate at the cap, never overflow
    for _ in range(12 if q else 80):
        scen.append({"main": rnd.choice(["malformed", "isdir", "ok"]), "personal": rnd.choice(["malformed", "isdir"]),
                     "backup": "", "maxatt": rnd.choice([15, 40, 70, 130]), "base": rnd.choice([0, 1, 100]),
                     "factor": rnd.choice([2.0, 10.0, 1000.0]), "cap": rnd.choice([0, 1, 30]), "heal": rnd.choice([0, 0, 7, 14])})
    # one recovery object serving several loads: a load of good files right after a failed one, through the same object
    loads = ("ok", "empty", "utf16")
    out = []
    for s in scen:
        out.append(s)
        static_ok = s["main"] in loads and s["personal"] in loads + ("missing",)
        if not static_ok and rnd.random() < (0.25 if q else 0.5):
            out.append(dict(s, main="ok", personal=rnd.choice(["ok", "missing", "empty"]), backup="", heal=0, reuse=True))
    scen = out
    sf = os.path.join(ctx.work, "loader-scenarios.jsonl")
    with open(sf, "w") as f:
        for s in scen:
            f.write(json.dumps(s) + "\n")
    tr = os.path.join(ctx.work, "loader.ndjson")
    i = ctx.run_vh(["loader-run", "-in", sf, "-out", tr], timeout=1500)
    # the command line: configured path absent, a documented fall-back location holds the database
    ctx.wtf()
    tr_cli = os.path.join(ctx.work, "loader-cli.ndjson")
    icli = ctx.run_vh(["loader-cli", "-out", tr_cli], timeout=600)
    with open(tr, "a") as f:
        f.write(open(tr_cli).read())
    ok, rej = ctx.validate_traces(tr, "TraceLoader", TRACE_CFG)
    for x in rej:
        evs, at = x["trace"], x["at"]
        ctx.violation(signature(evs, at), "recorded load rejected at event %d (%s): %s" % (at, x["why"], " ; ".join(evs)[:600]),
                      {"rejected_at": at, "events": [json.loads(e) for e in evs]}, name="load")
    cov = {"states": r["distinct"], "transitions": r["generated"], "traces_validated_against_impl": ok,
           "samples": scen[:2] + scen[-1:], "scenarios_total_in_model": total, "scenarios_run": len(scen),
           "exhaustive": not q,
           "model_bounds": "main x personal faults {ok,missing,perm,isdir,malformed,empty}^2, attempts {-1..4}, base {0,1,2}, factor {1,2,3}, cap {1,3,50}"}
    return "model_checking", cov, [
        "attempt numbers and waits come from the verif observer hook inside the retry loop (no wall-clock inference)",
        "permission faults are real: the loads run in a child with uid/gid 65534 on files of mode 000",
        "'real' = commands equal main entries followed by notebook entries; 'builtin' = any other non-empty database",
        "back-off factors < 1 (which would ask for decreasing waits) are not generated",
        "the backup rung of the fallback ladder is unreachable in the code (the embedded rung always succeeds) and is only varied, not required"]
