"""X06 (specification growth, not a listed property) - the performance monitor's switch and the derived figures of its
report: Monitor.tla model-checked as designed and as built, histories of the real PerformanceMonitor validated against the
as-built model, and the deviations the model predicts looked for in the real reports."""
import json, os
from core import Infra, VERIF

MC_CFG = """SPECIFICATION Spec
CONSTANTS
  Export = "%s"
  MaxOps = %d
INVARIANTS RatioExact
PROPERTIES SilentWhileOff %s
CHECK_DEADLOCK FALSE
"""
TRACE_CFG = """SPECIFICATION TraceSpec
CONSTANTS
  Export = "asbuilt"
  MaxOps = 0
POSTCONDITION TraceAccepted
CHECK_DEADLOCK FALSE
"""


def run(ctx):
    q = ctx.quick
    r = ctx.tlc("Monitor", MC_CFG % ("designed", 5 if q else 7, "RateCountsAll MeanIsMean"), name="mon-designed", workers=4)
    if r["error"] or "is violated" in r["out"] or not r["distinct"]:
        raise Infra("X06: Monitor.tla does not hold as designed: %s" % (r["error"] or r["out"][-800:]))
    dev = {}
    for prop in ("RateCountsAll", "MeanIsMean"):
        r2 = ctx.tlc("Monitor", MC_CFG % ("asbuilt", 5, prop), name="mon-" + prop, workers=4)
        dev[prop] = ("Action property %s is violated" % prop) in r2["out"]
    r3 = ctx.tlc("Monitor", MC_CFG % ("asbuilt", 5, ""), name="mon-asbuilt-silent", workers=4)
    if r3["error"] and "is violated" in r3["out"]:
        raise Infra("X06: SilentWhileOff fails in the as-built model")
    tr = os.path.join(ctx.work, "monitor.ndjson")
    i = ctx.run_vh(["monitor-random", "-out", tr, "-traces", 100 if q else 1500, "-len", 40 if q else 80], timeout=1500)
    ok, rej = ctx.validate_traces(tr, "TraceMonitor", TRACE_CFG, max_rejects=6)
    kinds = {}
    for x in rej:
        evs, at = x["trace"], x["at"]
        ev = json.loads(evs[at - 1])
        kinds.setdefault("%s differs from the as-built specification" % ev["op"], []).append([json.loads(e) for e in evs[:at]])
    for k, v in kinds.items():
        p = ctx.save_replay("monitor", {"finding": k, "events": v[0]})
        print("EXTENSION-FINDING: component=performance monitor: %s (%d histories, e.g. %s)" % (k, len(v), p))
    # the deviations the model predicts, looked for in the real reports (replayed against the recorded operations)
    lines = [json.loads(l) for l in open(tr)]
    ops, seen = {}, {"RateCountsAll": [], "MeanIsMean": []}
    on, dur, cur = True, 0, []
    for e in lines:
        ops[e["op"]] = ops.get(e["op"], 0) + 1
        if e["op"] == "begin":
            on, dur, cur = True, 0, []
        cur.append(e)
        if e["op"] == "enable":
            on = e["b"]
        elif e["op"] == "search" and on:
            dur += e["ms"]
        elif e["op"] == "report":
            if e["ratetotal"] != e["hits"] + e["misses"]:
                seen["RateCountsAll"].append(list(cur))
            if dur > 0 and e["avg"] == 0:
                seen["MeanIsMean"].append(list(cur))
    text = {"RateCountsAll": "SearchesPerSecond counts only the searches that hit or only those that missed (the two `searches_total` series overwrite one another by name)",
            "MeanIsMean": "AverageSearchTime is always 0 (timer series are not exported, so `search_duration_count` is never found)"}
    for prop in seen:
        if dev.get(prop) and seen[prop]:
            p = ctx.save_replay("monitor-" + prop, {"finding": text[prop], "events": min(seen[prop], key=len)})
            print("EXTENSION-FINDING: component=performance report: %s - predicted by Monitor.tla (%s fails as built), observed in %d of %d real reports, e.g. %s"
                  % (text[prop], prop, len(seen[prop]), ops.get("report", 0), p))
        elif bool(dev.get(prop)) != bool(seen[prop]):
            print("X06 note: %s - model says %s, real reports say %s" % (prop, dev.get(prop), bool(seen[prop])))
    # binding self-test: a report whose hit count is one too high must be rejected
    bad = None
    for k, e in enumerate(lines):
        if e["op"] == "report" and e["hits"] > 0:
            first = next(j for j in range(k, -1, -1) if lines[j]["op"] == "begin")
            bad = [dict(x) for x in lines[first:k + 1]]
            bad[-1]["hits"] += 1
            break
    if bad is None:
        raise Infra("X06: no report with a hit was recorded")
    p = os.path.join(ctx.work, "monitor-selftest.ndjson")
    open(p, "w").write("".join(json.dumps(e, separators=(",", ":")) + "\n" for e in bad))
    ok2, rej2 = ctx.validate_traces(p, "TraceMonitor", TRACE_CFG, max_rejects=1)
    if not rej2:
        raise Infra("X06 binding self-test failed: a report with a wrong hit count was accepted")
    cov = {"model": {"states_designed": r["distinct"], "as_built_deviations": dev}, "histories": i.get("traces"), "events": i.get("events"), "by_event": ops,
           "as_built_observed": {k: len(v) for k, v in seen.items()}, "traces_validated_against_impl": ok, "findings": {k: len(v) for k, v in kinds.items()},
           "binding_selftest": "a report with one hit too many is rejected", "samples": lines[:4]}
    os.makedirs(os.path.join(VERIF, "evidence-extras"), exist_ok=True)
    json.dump({"id": "X06", "component": "internal/metrics (PerformanceMonitor, PerformanceReport)", "tier": ctx.tier, "seed": ctx.seed, "coverage": cov},
              open(os.path.join(VERIF, "evidence-extras", "X06.json"), "w"), indent=1)
    print("X06 done: %d histories, %d rejected" % (ok + len(rej), len(rej)))
    raise SystemExit(0)
