"""C06 - NLP enhancement never drops what the user typed."""
import json, os
import engine
from core import Infra

TS_CFG = """SPECIFICATION Spec
CONSTANTS
  A = %(a)d
  M = %(m)d
  P = %(p)d
  EnhanceMode = "%(mode)s"
  CapOrder = "after"
  Idf <- MCIdf
  MaxUser = %(maxuser)d
INVARIANTS UserKept FirstPKept Bounded
CHECK_DEADLOCK FALSE
"""


REPLAY = ("TraceSearch", engine.TRACE_CFG % '"C06"')


def signature(ev):
    S = set
    if ev["panic"]:
        return "C06|panic"
    if ev["ntok"] <= 10 and not S(ev["off"]) <= S(ev["on"]):
        return "C06|lexical-match-lost|ntok=%s" % ("<=8" if ev["ntok"] <= 8 else "9-10")
    if not S(ev["first4"]) <= S(ev["on"]):
        return "C06|first-four-lost"
    if ev["enh"][:len(ev["kw"])] != ev["kw"]:
        return "C06|keywords-not-prefix"
    if len(S(ev["enh"])) != len(ev["enh"]):
        return "C06|duplicates"
    if not ev["same"]:
        return "C06|analysis-not-repeatable"
    if not ev.get("kwcomp", True):
        return "C06|user-word-lost"
    if not ev.get("onsame", True):
        return "C06|analysis-depends-on-history"
    if any(c < 0 for c in ev["oncmp"]):
        return "C06|order"
    return "C06|user-order"


def run(ctx):
    q = ctx.quick
    r = ctx.model_check("MCTermSelect", TS_CFG % dict(a=3, m=4, p=2, mode="append", maxuser=6 if q else 7), name="MCTermSelect-scaled")
    ctx.model_check("MCTermSelect", TS_CFG % dict(a=3, m=4, p=2, mode="replace", maxuser=4), name="MCTermSelect-defect-replace",
                    expect_violation="UserKept")
    tr = os.path.join(ctx.work, "nlp.ndjson")
    i = ctx.run_vh(["engine-nlp", "-out", tr, "-n", 700 if q else 12000], timeout=3000)
    ok, rej = ctx.validate_traces(tr, "TraceSearch", engine.TRACE_CFG % '"C06"', max_rejects=8)
    for x in rej:
        ev = json.loads(x["trace"][x["at"] - 1])
        ctx.violation(signature(ev), "query %r (%d content words, %s database): off %s on %s first-four %s; keywords %s expanded %s same=%s" %
                      (ev["q"], ev["ntok"], ev["corpus"], len(ev["off"]), len(ev["on"]), len(ev["first4"]), ev["kw"], ev["enh"], ev["same"]), ev, name="nlp")
    lens = {}
    for l in open(tr):
        k = json.loads(l)["ntok"]
        lens[k] = lens.get(k, 0) + 1
    cov = {"states": r["distinct"], "transitions": r["generated"], "traces_validated_against_impl": ok,
           "queries": i.get("queries"), "queries_by_content_words": {str(k): lens[k] for k in sorted(lens)},
           "samples": [json.loads(l)["q"] for l in open(tr).readlines()[:4]], "exhaustive": True,
           "model_bounds": "scaled constants (A, M, P) = (3, 4, 2): every user token list up to length %d over 5 symbols (one unknown to the index) x 5 proposal lists" % (6 if q else 7)}
    return "model_checking", cov, [
        "the real constants (8, 10, 4) are exercised by generated queries concentrated on 7..14 content words; the model checks the scaled ones exhaustively",
        "content words counted with the reference tokeniser; comparisons at limit = database size + 10, typo tolerance off",
        "queries mix NLP action/target words, stop words, corpus words, repeated words and unknown words on the synthetic and the shipped database"]
