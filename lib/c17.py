"""C17 - every CLI command runs, and search output matches the engine's answer."""
import json, os, random
from core import Infra

MC_CFG = """SPECIFICATION Spec
CONSTANTS
  RecoverBounded = %s
  RecordRejected = %s
INVARIANTS EndsSomehow PrintedBounded HistoryOnce
CHECK_DEADLOCK FALSE
%s
"""
TRACE_CFG = """SPECIFICATION TraceSpec
CONSTANTS
  RecoverBounded = TRUE
  RecordRejected = FALSE
POSTCONDITION TraceAccepted
CHECK_DEADLOCK FALSE
"""
SEARCH = ("search", "implicit")


def accepted(s):
    return (s["sub"] in SEARCH and s["limit"] != "abc" and s["args"] != "unknownflag" and s["args"] in ("one", "many", "hostile")
            and s["query"] in ("hit", "recover", "none", "padded") and s["limit"] in ("absent", "0", "1", "3", "100"))


REPLAY = ("TraceCli", TRACE_CFG)


def signature(ev):
    s = ev["sc"]
    if ev["crash"]:
        return "C17|crash|sub=%s" % s["sub"]
    if s["color"] in ("flag", "env") and ev["esc"]:
        return "C17|escape-sequences|color=%s|format=%s" % (s["color"], s["format"])
    if accepted(s):
        lim = {"1": 1, "3": 3, "100": 100}.get(s["limit"], 5)
        if ev["nres"] > lim:
            return "C17|more-than-limit|query=%s" % s["query"]
        if s["db"] == "valid" and not ev["matches"]:
            return "C17|output-differs-from-engine|format=%s|query=%s|plat=%s" % (s["format"], s["query"], s["plat"])
        if s["format"] in ("json", "JSON") and ev["nres"] > 0 and not ev["jsonok"]:
            return "C17|json-malformed"
        return "C17|history|delta=%d|last=%s" % (ev["histdelta"], ev["histlast"])
    if s["sub"] in SEARCH:
        return "C17|rejected-search-has-effects|nres=%d|hist=%d" % (min(ev["nres"], 1), ev["histdelta"])
    return "C17|history-touched-by|sub=%s" % s["sub"]


def run(ctx):
    q = ctx.quick
    rnd = random.Random(ctx.seed)
    ctx.wtf()
    r = ctx.model_check("MCCli", MC_CFG % ("TRUE", "FALSE", ""), name="MCCli-exh", workers=8)
    ctx.model_check("MCCli", MC_CFG % ("FALSE", "FALSE", ""), name="MCCli-defect-recovery", workers=8, expect_violation="PrintedBounded")
    ctx.model_check("MCCli", MC_CFG % ("TRUE", "TRUE", ""), name="MCCli-defect-record", workers=8, expect_violation="HistoryOnce")
    dump = os.path.join(ctx.work, "cli-scen.ndjson")
    r2 = ctx.tlc("MCCli", MC_CFG % ("TRUE", "FALSE", "CONSTRAINT DumpS"), name="MCCli-dump", env={"DUMPFILE": dump}, timeout=1200)
    if r2["error"] or r2["violated"]:
        raise Infra("dump failed: %s %s" % (r2["error"], r2["violated"]))
    scen = []
    seen = set()
    for l in open(dump):
        l = l.strip()
        if l and l not in seen:
            seen.add(l)
            s = json.loads(l)
            scen.append(json.loads(s) if isinstance(s, str) else s)
    total = len(scen)
    rnd.shuffle(scen)
    keep, have = [], set()
    for s in scen:      # pairwise-style cover of the scenario features, then random fill
        ks = [(a, s[a], b, s[b]) for a in ("sub", "query", "limit", "format", "db") for b in ("args", "color", "plat", "verbose", "format", "limit") if a != b]
        if any(k not in have for k in ks):
            have.update(ks)
            keep.append(s)
    per = {}
    extra = []
    for s in scen:      # the other sub-commands: a fixed number of runs each (their arguments are drawn afresh per run)
        if s["sub"] not in SEARCH and per.get((s["sub"], s["args"] == "hostile"), 0) < (25 if q else 300):
            per[(s["sub"], s["args"] == "hostile")] = per.get((s["sub"], s["args"] == "hostile"), 0) + 1
            extra.append(s)
    # outputs of several kilobytes (every match of a broad query, verbose detail lines): buffering and flushing slips show there
    big = [s for s in scen if s["sub"] in SEARCH and s["limit"] == "100" and s["query"] == "hit" and s["db"] == "valid" and s["plat"] in ("all", "none")
           and s["args"] != "unknownflag"]
    big = [s for s in big if s["verbose"]][:(18 if q else 200)] + [s for s in big if not s["verbose"]][:(6 if q else 60)]
    # --no-cross-platform without --platform (a combination outside the model's platform classes)
    alone = [dict(s, plat="nocross") for s in scen if s["sub"] in SEARCH and s["plat"] == "linuxnocross" and s["db"] == "valid"
             and s["query"] in ("hit", "typo", "padded") and s["args"] != "unknownflag"][:(24 if q else 400)]
    scen = keep + big + alone + extra + scen[:(600 if q else 25000)]
    sf = os.path.join(ctx.work, "cli-run.jsonl")
    with open(sf, "w") as f:
        for s in scen:
            f.write(json.dumps(s) + "\n")
    tr = os.path.join(ctx.work, "cli.ndjson")
    i = ctx.run_vh(["cli-run", "-in", sf, "-out", tr], timeout=3400)
    ok, rej = ctx.validate_traces(tr, "TraceCli", TRACE_CFG, max_rejects=10)
    for x in rej:
        ev = json.loads(x["trace"][x["at"] - 1])
        ctx.violation(signature(ev), "wtf %s -> exit %d, %d results, matches=%s jsonok=%s esc=%s history +%d last=%s %s" %
                      (" ".join(ev["argv"])[:300], ev["exit"], ev["nres"], ev["matches"], ev["jsonok"], ev["esc"], ev["histdelta"], ev["histlast"], ev.get("note", "")),
                      ev, name="run")
    subs = {}
    nacc = 0
    for l in open(tr):
        e = json.loads(l)
        subs[e["sc"]["sub"]] = subs.get(e["sc"]["sub"], 0) + 1
        nacc += accepted(e["sc"])
    cov = {"states": r["distinct"], "transitions": r["generated"], "traces_validated_against_impl": ok, "scenarios_total_in_model": total,
           "processes_run": i.get("runs"), "by_subcommand": subs, "accepted_searches": nacc, "exhaustive": False,
           "samples": [json.loads(l)["argv"] for l in open(tr).readlines()[:3]]}
    return "model_checking", cov, [
        "one real process per scenario in a fresh HOME / XDG_CONFIG_HOME and an empty working directory, stdin at EOF",
        "oracle for 'the engine's results': SearchUniversal with the options the search command documents (validated limit, typo tolerance on with threshold -30, NLP on, the platform flags, no context boosts in an empty directory), then the recovery search cut to the limit - computed in-process on the same database",
        "list / table / JSON output parsed after removing ANSI sequences; table rows compared on the 45-character truncation the table prints",
        "argument strings containing NUL cannot be passed through exec and are not generated",
        "the scenario space (194,832 combinations) is sampled: a pairwise cover of the features plus a random fill"]
