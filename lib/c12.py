"""C12 - the result cache is a correct bounded LRU with a staleness limit."""
import json, os, random
from core import Infra

MC_CFG = """SPECIFICATION Spec
CONSTANTS
  DefaultCap = 2
  TouchOnGet = %(touch_get)s
  TouchOnUpdate = TRUE
  ExpireBy = "%(expire_by)s"
  Keys = %(keys)s
  Vals = {1, 2}
  CapReqs = %(caps)s
  TTLs = %(ttls)s
  MaxCount = %(maxcount)d
  MaxTick = 1
CONSTRAINT Limit
VIEW View
INVARIANTS Bounded DistinctKeys CountersOK ValueNotOlderThanEntry RecencyOrder
PROPERTIES ActionProps
CHECK_DEADLOCK FALSE
%(extra)s
"""

TRACE_CFG = """SPECIFICATION TraceSpec
CONSTANTS
  DefaultCap = %(defcap)d
  TouchOnGet = TRUE
  TouchOnUpdate = TRUE
  ExpireBy = "created"
INVARIANTS Bounded DistinctKeys RecencyOrder
POSTCONDITION TraceAccepted
CHECK_DEADLOCK FALSE
"""


def mc_cfg(**kw):
    d = dict(touch_get="TRUE", expire_by="created", keys="{1, 2, 3}", caps="{0, 1, 2, 3}", ttls="{0, 1, 2}",
             maxcount=2, extra="")
    d.update(kw)
    return MC_CFG % d


def lru_signature(events, at):
    ev = json.loads(events[at - 1]) if 0 < at <= len(events) else {}
    return "C12|op=%s|ttl=%s|capreq=%s" % (ev.get("op"), "0" if ev.get("ttl") == 0 else "pos",
                                             "default" if ev.get("capreq", 1) < 1 else "given")


def report_rejects(ctx, rejects, origin, prop_sig=lru_signature):
    for r in rejects:
        evs = r["trace"]
        at = r["at"]
        sig = prop_sig(evs, at)
        ctx.violation(sig, "%s trace rejected by the specification at event %d (%s): %s" %
                      (origin, at, r["why"], evs[at - 1][:300] if at <= len(evs) else "?"),
                      {"origin": origin, "rejected_at": at, "events": [json.loads(e) for e in evs[:at + 3]]}, name=origin)


REPLAY = ("TraceLRU", TRACE_CFG % {"defcap": 100})


def run(ctx):
    quick = ctx.quick
    info = ctx.run_vh(["lru-info"])
    defcap = info["default_cap"]
    if info["default_cap_neg"] != defcap or defcap < 1:
        ctx.violation("C12|default-capacity", "non-positive capacities are not replaced by one default: 0 -> %d, -3 -> %d"
                      % (defcap, info["default_cap_neg"]), info, name="defcap")
    # (E) exhaustive model checking of the design, current switches
    r = ctx.model_check("MCLRU", mc_cfg(caps="{0, 1, 2}", ttls="{0, 1}", maxcount=2) if quick else mc_cfg(maxcount=3),
                        name="MCLRU-exh", workers=8)
    states, trans = r["distinct"], r["generated"]
    # defect switches must be caught by the model (non-vacuity of the properties)
    ctx.model_check("MCLRU", mc_cfg(touch_get="FALSE"), name="MCLRU-defect-touch", expect_violation="RecencyOrder")
    ctx.model_check("MCLRU", mc_cfg(expire_by="accessed"), name="MCLRU-defect-expiry", expect_violation="ActionProps")
    # unbounded: TLAPS proof that inserting a new key never takes the cache above its capacity
    ctx.tlaps("LRUProof")
    # (A) transition dump -> tours on the real object
    dump = os.path.join(ctx.work, "lru-dump.ndjson")
    r2 = ctx.tlc("MCLRU", mc_cfg(caps="{2}" if quick else "{1, 2}", ttls="{1}" if quick else "{0, 1}", maxcount=2,
                                 extra="ACTION_CONSTRAINT DumpT"), name="MCLRU-dump", env={"DUMPFILE": dump}, workers=1,
                 timeout=900)
    if r2["error"] or r2["violated"]:
        raise Infra("dump run failed: %s %s" % (r2["error"], r2["violated"]))
    from core import plan_tours

    def state_key(s):
        return json.dumps(s, sort_keys=True)

    def op_of(o):
        op = o["op"]
        if op in ("get", "delete"):
            return [op, o["k"]]
        if op == "put":
            return [op, o["k"], o["v"]]
        if op == "tick":
            return [op, o["n"]]
        if op in ("clear", "sweep", "size"):
            return [op]
        return None

    def init_of(s):
        if not s["ents"] and s["h"] == 0 and s["m"] == 0 and s["e"] == 0:
            return {"capreq": s["cap"], "ttl": s["ttl"]}
        return None

    rnd = random.Random(ctx.seed)
    tours, st = plan_tours(dump, state_key, op_of, init_of, max_tours=8000 if quick else 200000, rnd=rnd,
                            keep=lambda ops: ops[-1][0] == "sweep" and any(o[0] == "tick" for o in ops))
    os.remove(dump)
    tf = os.path.join(ctx.work, "lru-tours.jsonl")
    with open(tf, "w") as f:
        for ini, ops in tours:
            f.write(json.dumps({"capreq": ini["capreq"], "ttl": ini["ttl"], "ops": ops}) + "\n")
    tr1 = os.path.join(ctx.work, "lru-tours.ndjson")
    i1 = ctx.run_vh(["lru-tours", "-in", tf, "-out", tr1])
    ok1, rej1 = ctx.validate_traces(tr1, "TraceLRU", TRACE_CFG % {"defcap": defcap})
    report_rejects(ctx, rej1, "walker")
    # (B) random histories on larger domains
    tr2 = os.path.join(ctx.work, "lru-random.ndjson")
    i2 = ctx.run_vh(["lru-random", "-out", tr2, "-traces", 150 if quick else 1500, "-len", 80 if quick else 150])
    ok2, rej2 = ctx.validate_traces(tr2, "TraceLRU", TRACE_CFG % {"defcap": defcap})
    report_rejects(ctx, rej2, "random")
    # (C) the typed front (cache.SearchCache: results filed under query + options) driven directly and validated against
    # LRU.tla through TraceCacheLRU: a lookup hands back exactly the list most recently stored, whatever its length
    import x03
    tr3 = os.path.join(ctx.work, "lru-searchcache.ndjson")
    i3 = ctx.run_vh(["lru-searchcache", "-out", tr3, "-traces", 60 if quick else 600, "-len", 60 if quick else 120])
    sc_traces = x03.split(tr3)
    bad = []
    from concurrent.futures import ThreadPoolExecutor
    with ThreadPoolExecutor(max_workers=6) as ex:
        for b in ex.map(lambda k: x03.find_bad(ctx, sc_traces[k::6], "sc%d" % k), range(6)):
            bad += b
    for t, why in bad[:4]:
        at = x03.last_ok(ctx, t)
        ev = json.loads(t[at]) if at < len(t) else {}
        ctx.violation("C12|searchcache|%s" % ev.get("op"), "history of the typed cache front rejected at event %d (%s): %s" % (at + 1, why, t[at][:300] if at < len(t) else "?"),
                      {"origin": "searchcache", "rejected_at": at + 1, "events": [json.loads(e) for e in t[:at + 1]]}, name="searchcache")
    ctx.cov["searchcache_histories"] = len(sc_traces)
    ctx.cov["searchcache_events"] = i3.get("events")
    ok2 += len(sc_traces) - len(bad)
    # binding self-test: one corrupted field must be rejected
    selftest(ctx, tr2, defcap)
    samples = [{"tour": tours[i][1], "init": tours[i][0]} for i in range(0, len(tours), max(1, len(tours) // 3))][:3]
    cov = {"states": states, "transitions": trans, "traces_validated_against_impl": ok1 + ok2,
           "samples": samples, "walker": st, "walker_tours_executed": i1.get("tours"),
           "walker_events": i1.get("events"), "random_traces": i2.get("traces"), "random_events": i2.get("events"),
           "real_default_capacity": defcap,
           "model_bounds": ("keys 3, values 2, capacities {default,1,2}, ttl {none,1} ticks, counted events <= 2" if quick else
                            "keys 3, values 2, capacities {default,1,2,3}, ttl {none,1,2} ticks, counted events <= 3"),
           "exhaustive": True}
    return "model_checking", cov, [
        "logical clock: VerifAdvance hook ages entries; real TTL = (ticks + 1/2) hours so real elapsed time never crosses a boundary",
        "trusted: TLC, CommunityModules Json; the Go driver cmd/vh/lru.go (logs raw return values, Keys() and Stats())",
        "recency order, entry ages and refresh-on-overwrite are not logged; TLC infers them"]


def selftest(ctx, trace_file, defcap):
    lines = open(trace_file).read().split("\n")
    n = 0
    for i, l in enumerate(lines[:5000]):
        if '"op":"get"' in l and '"found":true' in l:
            n += 1
            if n == 5:
                e = json.loads(l)
                e["found"] = False
                e["v"] = -1
                lines[i] = json.dumps(e, separators=(",", ":"))
                break
    else:
        ctx.notes.append("self-test skipped: no hit among the first events")
        return
    p = os.path.join(ctx.work, "lru-selftest.ndjson")
    open(p, "w").write("\n".join(lines[:i + 50]) + "\n")
    cov_before = dict(ctx.cov)
    ok, rej = ctx.validate_traces(p, "TraceLRU", TRACE_CFG % {"defcap": defcap}, shards=1)
    ctx.cov.update(cov_before)
    if not rej:
        raise Infra("binding self-test failed: a corrupted trace was accepted by TraceLRU")
    ctx.cov["binding_selftest"] = "corrupted hit->miss at event %d rejected" % (i + 1)
