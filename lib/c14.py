"""C14 - accepted queries are clean, and validation is stable and decisive."""
import json, os
from core import Infra

MC_CFG = """SPECIFICATION Spec
CONSTANTS
  Max = 4
  InvalidByte = "%(ib)s"
  MaxLen = %(maxlen)d
INVARIANTS T1 T2 T3
CHECK_DEADLOCK FALSE
%(extra)s
"""
TRACE_CFG = """SPECIFICATION TraceSpec
CONSTANTS
  Max = 1000
  InvalidByte = "keep"
POSTCONDITION TraceAccepted
CHECK_DEADLOCK FALSE
"""


REPLAY = ("TraceValidate", TRACE_CFG)


def signature(events, at):
    ev = json.loads(events[at - 1]) if 0 < at <= len(events) else {}
    if ev.get("op") == "cquery":
        return "C14|command-line-query|form=%s|%s" % (ev.get("form"), "searched-although-rejected" if ev.get("ok2") else "rejected-although-acceptable")
    if ev.get("op") == "climit":
        return "C14|command-line-limit|form=%s|n=%s" % (ev.get("form"), "neg" if ev["n"] < 0 else "0" if ev["n"] == 0 else "1..100" if ev["n"] <= 100 else ">100")
    if ev.get("op") == "limit":
        return "C14|limit|n=%s" % ("neg" if ev["n"] < 0 else "0" if ev["n"] == 0 else "1..100" if ev["n"] <= 100 else ">100")
    inv = 11 in ev.get("in", [])
    if ev.get("ok") and (not ev.get("ok2") or not ev.get("same")):
        return "C14|query|not-idempotent" + ("|invalid-utf8" if inv else "")
    if ev.get("ok"):
        return "C14|query|output" + ("|invalid-utf8" if inv else "")
    return "C14|query|rejected" + ("|invalid-utf8" if inv else "")


def run(ctx):
    q = ctx.quick
    r = ctx.model_check("MCValidate", MC_CFG % dict(ib="keep", maxlen=4 if q else 5, extra=""), name="MCValidate-exh")
    ctx.model_check("MCValidate", MC_CFG % dict(ib="replace", maxlen=3, extra=""), name="MCValidate-defect-replace",
                    expect_violation="T3")
    dump = os.path.join(ctx.work, "validate-seqs.ndjson")
    r2 = ctx.tlc("MCValidate", MC_CFG % dict(ib="keep", maxlen=3 if q else 4, extra="CONSTRAINT DumpS"), name="MCValidate-dump",
                 env={"DUMPFILE": dump})
    if r2["error"] or r2["violated"]:
        raise Infra("dump failed: %s %s" % (r2["error"], r2["violated"]))
    ctx.wtf()
    tr = os.path.join(ctx.work, "validate.ndjson")
    i = ctx.run_vh(["validate-run", "-in", dump, "-out", tr, "-reps", 2 if q else 4, "-random", 3000 if q else 30000,
                    "-boundary", 45 if q else 300])
    ok, rej = ctx.validate_traces(tr, "TraceValidate", TRACE_CFG, max_rejects=6)
    for x in rej:
        evs, at = x["trace"], x["at"]
        ctx.violation(signature(evs, at), "ValidateQuery/ValidateLimit call not allowed by the specification: %s" % evs[at - 1][:500],
                      {"event": json.loads(evs[at - 1])}, name="call")
    cov = {"states": r["distinct"], "transitions": r["generated"], "traces_validated_against_impl": ok,
           "samples": [json.loads(l) for l in open(tr).readlines()[100:103]],
           "class_sequences_from_model": i.get("class_sequences"), "calls_recorded": i.get("events"), "exhaustive": True,
           "model_bounds": "all class sequences of length <= %d over 11 character classes with Max scaled to 4 bytes" % (4 if q else 5)}
    return "model_checking", cov, [
        "characters are abstracted to 16 classes (ASCII, multi-byte letters of width 2/3/4, ASCII/Unicode spaces, tab, newline, CR/VT/FF, C0/C1 controls, NEL, metacharacters, invalid bytes, U+FFFD); the Go classifier classOf is trusted",
        "each accepted output is validated again by the real function; byte equality of the two outputs is logged raw",
        "limits are checked for a fixed list of boundary values plus 200 random integers in [-80, 180]"]
