"""X08 (specification growth, not a listed property) - `wtf setup <name>`: Setup.tla model-checked with both detection rules,
runs of the real binary in scratch home directories validated against the as-built model, and the deviation the model
predicts looked for in the recorded runs."""
import json, os
from core import Infra, VERIF

MC_CFG = """SPECIFICATION Spec
CONSTANTS
  Files = {"bashrc", "zshrc"}
  Names = {"hey", "miko"}
  Detect = "%s"
PROPERTIES AppendOnly NeverCreates AtMostOnce %s
CHECK_DEADLOCK FALSE
"""
TRACE_CFG = """SPECIFICATION TraceSpec
CONSTANTS
  Files = {"bashrc", "zshrc"}
  Names = {"hey", "miko", "h", "he"}
  Detect = "substring"
POSTCONDITION TraceAccepted
CHECK_DEADLOCK FALSE
"""


def run(ctx):
    q = ctx.quick
    ctx.wtf()
    r = ctx.tlc("Setup", MC_CFG % ("defines", "DefinedAfter"), name="setup-defines", workers=2)
    if r["error"] or "is violated" in r["out"] or not r["distinct"]:
        raise Infra("X08: Setup.tla does not hold as designed: %s" % (r["error"] or r["out"][-800:]))
    r2 = ctx.tlc("Setup", MC_CFG % ("substring", "DefinedAfter"), name="setup-substring", workers=2)
    dev = "Action property DefinedAfter is violated" in r2["out"]
    r3 = ctx.tlc("Setup", MC_CFG % ("substring", ""), name="setup-substring-rest", workers=2)
    if "is violated" in r3["out"]:
        raise Infra("X08: AppendOnly / NeverCreates / AtMostOnce fail in the as-built model")
    tr = os.path.join(ctx.work, "setup.ndjson")
    i = ctx.run_vh(["setup-run", "-out", tr, "-sessions", 40 if q else 500, "-len", 8], timeout=3000)
    ok, rej = ctx.validate_traces(tr, "TraceSetup", TRACE_CFG, max_rejects=6)
    kinds = {}
    for x in rej:
        evs, at = x["trace"], x["at"]
        ev = json.loads(evs[at - 1])
        k = "crash in setup" if ev.get("crash") else "setup %s: the shell files afterwards are not the as-built specification's" % ev.get("name")
        kinds.setdefault(k, []).append([json.loads(e) for e in evs[:at]])
    for k, v in kinds.items():
        p = ctx.save_replay("setup", {"finding": k, "events": v[0]})
        print("EXTENSION-FINDING: component=cli setup: %s (%d sessions, e.g. %s)" % (k, len(v), p))
    lines = [json.loads(l) for l in open(tr)]
    shapes, seen, nrun = {}, [], 0
    for e in lines:
        if e["op"] == "begin":
            k = "/".join("absent" if not e["files"][f]["there"] else "defs%d+ment%d" % (len(e["files"][f]["defs"]), len(e["files"][f]["ment"])) for f in ("bashrc", "zshrc"))
            shapes[k] = shapes.get(k, 0) + 1
        else:
            nrun += 1
            if any(f["there"] and e["name"] not in f["defs"] for f in e["files"].values()):
                seen.append(e)
    text = "`wtf setup <name>` reports the alias as existing and adds nothing when the shell file only mentions it (a commented-out definition, an `unalias <name> ...` line): afterwards the alias is not defined in that shell"
    if dev and seen:
        p = ctx.save_replay("setup-DefinedAfter", {"finding": text, "event": seen[0]})
        print("EXTENSION-FINDING: component=cli setup: %s - predicted by Setup.tla (DefinedAfter fails as built), observed in %d of %d real runs, e.g. %s" % (text, len(seen), nrun, p))
    elif dev != bool(seen):
        print("X08 note: DefinedAfter - model says %s, real runs say %s" % (dev, bool(seen)))
    # binding self-test: a definition that vanished from a file must be rejected
    bad = None
    for k, e in enumerate(lines):
        if e["op"] == "setup" and any(len(f["defs"]) >= 2 for f in e["files"].values()):
            first = next(j for j in range(k, -1, -1) if lines[j]["op"] == "begin")
            bad = json.loads(json.dumps(lines[first:k + 1]))
            for f in bad[-1]["files"].values():
                if len(f["defs"]) >= 2:
                    f["defs"] = f["defs"][1:]
            break
    if bad is None:
        raise Infra("X08: no file with two definitions was recorded")
    p = os.path.join(ctx.work, "setup-selftest.ndjson")
    open(p, "w").write("".join(json.dumps(e, separators=(",", ":")) + "\n" for e in bad))
    ok2, rej2 = ctx.validate_traces(p, "TraceSetup", TRACE_CFG, max_rejects=1)
    if not rej2:
        raise Infra("X08 binding self-test failed: a lost definition was accepted")
    cov = {"model": {"states_designed": r["distinct"], "as_built_deviation_DefinedAfter": dev}, "sessions": i.get("sessions"), "runs": nrun, "starting_shapes": shapes,
           "as_built_observed": len(seen), "traces_validated_against_impl": ok, "findings": {k: len(v) for k, v in kinds.items()},
           "binding_selftest": "a definition that vanished from a file is rejected", "samples": lines[:3]}
    os.makedirs(os.path.join(VERIF, "evidence-extras"), exist_ok=True)
    json.dump({"id": "X08", "component": "internal/cli (setup)", "tier": ctx.tier, "seed": ctx.seed, "coverage": cov},
              open(os.path.join(VERIF, "evidence-extras", "X08.json"), "w"), indent=1)
    print("X08 done: %d sessions, %d rejected" % (ok + len(rej), len(rej)))
    raise SystemExit(0)
