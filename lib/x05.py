"""X05 (specification growth, not a listed property) - path and file-name hygiene: PathRules.tla model-checked over every
text of up to six characters, and calls of the real ValidatePath / SanitizePath / SanitizeFilename (short texts and texts
that end within a few bytes of the real caps) validated against it."""
import json, os
from core import Infra, VERIF

MC_CFG = """SPECIFICATION Spec
CONSTANTS
  PathCap = 4
  NameCap = 3
  MaxLen = %d
INVARIANTS %s
CHECK_DEADLOCK FALSE
"""
TRACE_CFG = """SPECIFICATION TraceSpec
CONSTANTS
  PathCap = 4096
  NameCap = 255
POSTCONDITION TraceAccepted
CHECK_DEADLOCK FALSE
"""
AS_BUILT = {"Trimmed": ("untrimmed", "SanitizeFilename can return a name that ends in a dot or a space (the cut at 255 bytes comes after the trimming)"),
            "Whole": ("split", "SanitizeFilename can cut a multi-byte character in two (the result is not valid UTF-8)"),
            "Idem": ("notidem", "SanitizeFilename is not idempotent (sanitising the result again changes it)")}


def run(ctx):
    q = ctx.quick
    r = ctx.tlc("MCPathRules", MC_CFG % (5 if q else 6, "Holds"), name="path-holds", workers=8)
    if r["violated"] or r["error"] or not r["distinct"]:
        raise Infra("X05: PathRules.tla does not hold as designed: %s %s" % (r["violated"], r["error"]))
    model_dev = {}
    for inv in list(AS_BUILT) + ["WholePath"]:
        r2 = ctx.tlc("MCPathRules", MC_CFG % (5, inv), name="path-" + inv, workers=4)
        model_dev[inv] = r2["violated"] == inv
    tr = os.path.join(ctx.work, "paths.ndjson")
    i = ctx.run_vh(["path-random", "-out", tr, "-n", 400 if q else 6000], timeout=1500)
    ok, rej = ctx.validate_traces(tr, "TracePathRules", TRACE_CFG, max_rejects=6, timeout=900)
    kinds = {}
    for x in rej:
        evs, at = x["trace"], x["at"]
        ev = json.loads(evs[at - 1])
        kinds.setdefault("%s: the real outcome is not the specification's" % ev["op"], []).append(ev)
    for k, v in kinds.items():
        p = ctx.save_replay("pathrules", {"finding": k, "event": v[0]})
        print("EXTENSION-FINDING: component=validation (paths): %s (%d texts, e.g. %s)" % (k, len(v), p))
    lines = [json.loads(l) for l in open(tr)]
    ops, why, seen = {}, {}, {}
    for e in lines:
        ops[e["op"]] = ops.get(e["op"], 0) + 1
        if e["op"] == "vpath":
            why[e["why"] or "accepted"] = why.get(e["why"] or "accepted", 0) + 1
        if e["op"] == "sname":
            for inv, (f, _) in AS_BUILT.items():
                if e[f]:
                    seen.setdefault(inv, []).append(e)
    # the as-built deviations the model predicts, confirmed (or not) on the real code
    for inv, (f, text) in AS_BUILT.items():
        if model_dev.get(inv) and seen.get(inv):
            ex = next((e for e in seen[inv] if e.get("text")), seen[inv][0])
            p = ctx.save_replay("pathrules-" + f, {"finding": text, "event": ex})
            print("EXTENSION-FINDING: component=validation.SanitizeFilename: %s - predicted by PathRules.tla (%s fails), observed on %d of %d real calls, e.g. %s"
                  % (text, inv, len(seen[inv]), ops.get("sname", 0), p))
        elif bool(model_dev.get(inv)) != bool(seen.get(inv)):
            print("X05 note: %s - model says %s, real calls say %s" % (inv, model_dev.get(inv), bool(seen.get(inv))))
    # binding self-test: one class of one output changed must be rejected
    bad = None
    for e in lines:
        if e["op"] == "spath" and e["out"]:
            bad = json.loads(json.dumps(e))
            bad["out"][0][0] = 1 if bad["out"][0][0] != 1 else 10
            break
    p = os.path.join(ctx.work, "paths-selftest.ndjson")
    open(p, "w").write(json.dumps(bad, separators=(",", ":")) + "\n")
    ok2, rej2 = ctx.validate_traces(p, "TracePathRules", TRACE_CFG, max_rejects=1)
    if not rej2:
        raise Infra("X05 binding self-test failed: a changed output was accepted")
    cov = {"model": {"texts": r["distinct"], "as_built_deviations": model_dev}, "texts": i.get("traces"), "events": i.get("events"), "by_event": ops,
           "validate_path_outcomes": why, "as_built_observed": {k: len(v) for k, v in seen.items()}, "traces_validated_against_impl": ok,
           "findings": {k: len(v) for k, v in kinds.items()}, "binding_selftest": "one class of one output changed: rejected", "samples": lines[:3]}
    os.makedirs(os.path.join(VERIF, "evidence-extras"), exist_ok=True)
    json.dump({"id": "X05", "component": "internal/validation (paths, file names)", "tier": ctx.tier, "seed": ctx.seed, "coverage": cov},
              open(os.path.join(VERIF, "evidence-extras", "X05.json"), "w"), indent=1)
    print("X05 done: %d texts, %d rejected" % (ok + len(rej), len(rej)))
    raise SystemExit(0)
