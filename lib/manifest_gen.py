#!/usr/bin/env python3
"""Regenerates /verif/MANIFEST.json from the table below (kept next to the checks so it stays current)."""
import json, os
V = os.path.dirname(os.path.dirname(os.path.abspath(__file__)))
HOOK_COMMITS = ["5bcc5429dd1e90a0848501ba74ca0c385f7c7517", "48f8a22064b2c66818c6d72d33e6f41b25392330"]

CHECKS = {
 "C12": dict(cat="model_checking", ref="DESIGN.md section 5, C12",
   tech="TLA+ spec LRU.tla: TLC exhaustive model check + TLC-derived tours replayed on the real cache + TLC trace validation of recorded executions",
   text="TLC explores every history of the bounded LRU model (3 keys, capacities default/1/2/3, ttl none/1/2 ticks) and checks capacity, LRU eviction, freshness, sweep and statistics properties in every state/transition; the dumped transition relation is turned into tours executed on the real cache.LRUCache, and those plus seeded random histories on larger domains (20+ keys, default capacity driven past 100, elapsed lifetimes) are validated event by event by TLC against the same specification.",
   note="Assumes the VerifAdvance hook ages entries exactly like elapsed time; trusted: TLC, CommunityModules, the Go driver that logs raw return values/Keys()/Stats()."),
 "C16": dict(cat="model_checking", ref="DESIGN.md section 5, C16",
   tech="TLA+ spec History.tla: TLC exhaustive model check over add/save/load/clear/foreign-file histories + TLC-derived tours on the real SearchHistory + TLC trace validation of random executions",
   text="TLC explores all histories (<= 4/6 steps) of add/save/load/clear with the on-disk file replaced by missing/empty/garbage/valid files carrying nonsensical maxima, checking that recording never crashes, keeps the newest entry, collapses immediate repeats and that load returns what was saved; the transition relation is replayed on the real history.SearchHistory and every recorded execution (tours and long random ones with hostile query strings and damaged files) is validated by TLC, including the recent/top/stats views. Foreign files also carry equal, decreasing, missing and mixed timestamps.",
   note="Entry identity = digest of all fields; garbage-file outcomes are left free except that recording must keep working; trusted: TLC, Go driver."),
 "C18": dict(cat="model_checking", ref="DESIGN.md section 5, C18",
   tech="TLA+ spec Metrics.tla: TLC exhaustive model check (all tag iteration orders) + TLC trace validation of executions recorded from the real Collector / PerformanceMonitor, incl. concurrent bursts",
   text="TLC explores every sequence (<= 5/6 steps) of get-or-create with every iteration order of the tag map, increments and observations, checking one series per identity, histogram consistency and percentile monotonicity; executions of the real collector (gets repeated with freshly built maps, counters, histograms, the monitor's record calls and report totals, concurrent bursts) are validated by TLC against the same registry/accounting model.",
   note="No graph walk for this component (recorder only); trusted: TLC, Go driver; race detector used in the thorough tier."),
 "C15": dict(cat="model_checking", ref="DESIGN.md section 5, C15",
   tech="TLA+ spec Loader.tla: TLC exhaustive model check of the retry/fallback protocol over all fault x configuration combinations; TLC-enumerated scenarios executed by the real LoadDatabaseWithFallback (unprivileged child, hooked attempts/waits); TLC trace validation",
   text="TLC enumerates every combination of main/personal file fault and retry configuration (5,832 scenarios) and checks, over all behaviours of the retry protocol, that loading ends usable, real iff the files load, with one attempt for missing/permission faults, attempts within budget and waits monotone and capped; every enumerated scenario (a stratified sample in the quick tier) plus random off-grid configurations is materialised on disk and run through the real loader, and the recorded attempt/delay/return events are validated by TLC against the same protocol.",
   note="Needs the recovery observer hook (build tag verif) and the ability to drop to uid 65534 for permission faults; trusted: TLC, Go driver."),
 "C14": dict(cat="model_checking", ref="DESIGN.md section 5, C14",
   tech="TLA+ spec Validate.tla (validation as staged function over character-class sequences): TLC checks the theorems on every class sequence; every sequence is concretised and run through the real ValidateQuery; TLC validates each recorded call",
   text="TLC evaluates acceptance, cleanliness, length and idempotence theorems on every character-class sequence up to length 4/5 (Max scaled to 4 bytes); each sequence is concretised with several representatives per class and run through the real ValidateQuery, as are thousands of random strings, raw byte strings and 999..1001-byte inputs; TLC then checks for each recorded call that the decision and the output class sequence are exactly those of the specification and that re-validation returned the same bytes. Limits are checked the same way.",
   note="Character classes and the Go classifier are the trusted abstraction; all-strings coverage is by class partition, not bytes."),
 "C02": dict(cat="model_checking", ref="DESIGN.md section 5, C02",
   tech="TLA+ spec SearchFlow.tla enumerates the scenario space with TLC; each scenario is executed repeatedly (same process, re-loaded copy, separate process) on the real engine and TLC validates the recorded answers against TraceSearch.tla (all repetitions identical)",
   text="TLC enumerates entry point x option x query-kind x corpus scenarios from the SearchFlow model; a stratified sample (all of them in the thorough tier) plus tie-heavy and shipped-database cases is executed on the real engine 6-25 times in-process, on a freshly loaded copy and in a separate process, and TLC checks on the recorded events that every repetition returned the identical documents in the identical order with identical score bits, and that 'did you mean' suggestions are reproducible.",
   note="Map iteration order is randomised by the Go runtime on every loop, so repetition samples the 'scheduler'; exhaustiveness is over scenarios, not over iteration orders."),
 "C01": dict(cat="model_checking", ref="DESIGN.md section 5, C01",
   tech="TLA+ spec SearchFlow.tla: TLC model-checks the staged engine over the full scenario cross product and enumerates it; every scenario is executed on the real entry points (incl. the real binary for the CLI path) and TLC validates the recorded answers against TraceSearch.tla",
   text="TLC explores the abstract engine pipeline (score, typo fallback, recovery, limit) for every combination of entry point, limit class, NLP/fuzzy/threshold/pipeline/platform/boost options, query kind and corpus, checking the bound at the design level (defect switches FuzzyCap/RecoverCap regenerate the known counterexamples); the enumerated scenarios (stratified sample in quick, all in thorough) plus tie-heavy and shipped-database cases run on the real code through SearchUniversal, Search, the pipeline search, the cached and monitored wrappers and the real wtf binary, and TLC checks for each recorded answer: length <= limit in force, members of the database, no duplicates, finite non-negative scores, non-increasing order. Most cases are preceded by a priming request (same query, one option changed) on the same database / cache object, and limits 1..12 are run right after a no-limit or larger-limit request on the cached and monitored wrappers.",
   note="Scenario classes are exhaustive, strings within a class are representatives; default limits are measured, not hard-coded."),
 "C04": dict(cat="model_checking", ref="DESIGN.md section 5, C04",
   tech="TLA+ specs Corpus.tla (eligibility predicates) + SearchFlow.tla: TLC model check and scenario enumeration; scenarios executed on the real engine; TLC validates every result's platform/pipeline class against the predicates",
   text="The eligibility predicates of the statement are written once in Corpus.tla; TLC checks them on the abstract engine for every flag combination and path, and evaluates the same predicates on the attributes of every result the real engine returns for the enumerated scenarios over a corpus with one document per (declared platforms x tool x pipeline) combination, on the lexical, NLP, typo-fallback, cached, pipeline and CLI paths, plus shipped-database queries. Most cases are preceded by a priming request with one filter option changed on the same database / cache object; a second corpus holds made-up programs whose names begin or end like a recognised tool.",
   note="Generous classification (unknown documents never checked); host platform linux."),
 "C07": dict(cat="model_checking", ref="DESIGN.md section 5, C07",
   tech="TLA+ spec SearchFlow.tla (Fallback stage and its invariants): TLC model check + scenario enumeration; paired real searches (typo tolerance on/off) validated by TLC against TraceSearch.tla",
   text="TLC checks on the abstract engine that the fallback stage is enabled only when nothing was scored, returns only sufficiently good subsequence matches and is complete; for every enumerated scenario with typo tolerance on, the real search is run with and without it and TLC checks the recorded pair: identical answers whenever the plain search finds something, otherwise every result contains the query as a subsequence, meets the requested threshold, best first, and an eligible subsequence match is never left unanswered when no threshold is set. A corpus with one made-up word per (declared platforms x tool) entry decides the completeness clause exactly for every platform class; cases are preceded by the same request with a filter option changed on the same Database.",
   note="Match quality recomputed with the matcher library per result; threshold 0 = unset."),
 "C20": dict(cat="model_checking", ref="DESIGN.md section 5, C20",
   tech="TLA+ spec SearchFlow.tla enumerates scenarios with TLC; each is executed with the query and its admissible case re-spellings (and white-space paddings through the real binary); TLC validates on the recorded events that all answers are identical (TraceSearch.tla)",
   text="For TLC-enumerated scenarios on every path (lexical, NLP, typo fallback, cached, CLI) the query is re-spelt in upper, title and alternating case and with code points whose lower case is an ordinary letter (KELVIN SIGN, ANGSTROM SIGN); at the CLI it is additionally padded with leading, trailing, repeated spaces and tabs; TLC checks that every re-spelling received the identical ranked answer with identical score bits.",
   note="Only re-spellings with ToLower(r') = ToLower(r) are paired; awkward letters outside that relation are not compared."),
 "C05": dict(cat="model_checking", ref="DESIGN.md section 5, C05",
   tech="TLA+ spec CacheLayer.tla (transparency as the only property, uninterpreted Fresh): TLC exhaustive model check over histories; TLC-derived tours executed on the real Cached/MonitoredDatabase with the uncached engine as oracle; TLC trace validation of walker and random histories",
   text="TLC explores every history (<= 4/5 steps) of search, monitored search, entry loss, invalidate, enable/disable and database replacement over case-variant queries and option vectors and checks that every answer equals what the uncached engine would return and that no entry outlives a replacement (defect switches for a key that ignores an option field and for a missing invalidation regenerate the counterexamples); every transition of the dumped graph is executed on the real caching/monitoring layer with the model's option fields mapped onto pairs of the 11 real option fields, and long random histories incl. the shipped database are recorded; TLC validates each history: answer = fresh answer, and a cache hit only for an identity stored since the last invalidation.",
   note="Capacity/TTL over-approximated in the trace spec; logical clock via VerifAdvance."),
 "C11": dict(cat="model_checking", ref="DESIGN.md section 5, C11",
   tech="TLA+ specs Conc.tla (micro-step lock model, exhaustive) and TraceLRUConc.tla (linearisability of recorded concurrent histories against LRU.tla via silent Lin steps, depth-first TLC); concurrent searches recorded under the Go race detector and validated by TLC (TraceConcSearch.tla)",
   text="TLC explores all interleavings of the micro-steps of cache lookups, statistics reads, metric increments and get-or-create under the reader/writer lock (lock downgrade, non-atomic increment and missing re-check are design switches that regenerate lost-update counterexamples); hundreds of short concurrent histories recorded from the real LRUCache are checked for linearisability against the atomic LRU specification; goroutines searching one database directly, through the cache and through the monitor while others invalidate, sweep and read statistics run under the race detector, and TLC checks that every answer equals the answer obtained alone and that the monitor's totals equal the number of monitored searches. 4,000 (40,000) further tiny histories release 2-4 goroutines from a spin barrier to store the same new key, followed by a sequential epilogue (sizes, every key, forced evictions).",
   note="Data races are decided by the race detector (outside the specification); schedules are sampled."),
 "C13": dict(cat="model_checking", ref="DESIGN.md section 5, C13",
   tech="TLA+ specs SearchFlow.tla (scenario enumeration) + TraceSearch.tla P13 for paired real searches with/without boosts; Context.tla + MCContext (every subset of a marker palette x file content classes) for directory analysis, each directory materialised and analysed by the real code, validated by TLC",
   text="For TLC-enumerated scenarios with context boosts the real search is run with and without them at a limit above the database size and TLC checks on the recorded pair: identical candidate sets, no lower score for a command containing a boosted word, identical score for one containing none (NLP on and off, several boost maps, shipped database). TLC enumerates every subset of a palette of marker/decoy files with valid/malformed/odd/huge package.json and Makefile contents; each directory is created twice (different creation order), analysed by the real analyzer, and TLC checks distinct types, generic exactly alone, determinism and finite boosts >= 1.",
   note="Reference tokeniser and float comparisons are harness-side; marker table only constrained for documented markers and made-up names."),
 "C06": dict(cat="model_checking", ref="DESIGN.md section 5, C06",
   tech="TLA+ spec TermSelect.tla (Enhance/Cap stages): TLC exhaustive on scaled constants; generated queries run on the real engine with NLP off/on and through ProcessQuery; TLC validates each recorded observation (TraceSearch.tla TNlp)",
   text="TLC checks on every user token list (scaled constants) that enhancement appends and the cap keeps the user's words (up to M) and always the first P; generated sentences (action/target/stop/synonym/unknown/repeated words, 1..14 content words, synthetic and shipped database) are searched with NLP off and on at a limit above the database size and analysed by the real ProcessQuery; TLC checks for each: off-results are a subset of on-results up to ten content words, matches of the first four words are always retained, the expanded list starts with the keywords in the user's order without duplicates, and re-analysis is identical.",
   note="Reference tokeniser counts content words; real constants covered by generated queries, scaled ones exhaustively."),
 "C19": dict(cat="model_checking", ref="DESIGN.md section 5, C19",
   tech="TLA+ spec Embed.tla (loader protocol with allocation accounting): TLC exhaustive over abstract files; every abstract file materialised and loaded by the real loaders in a memory-limited child; paired searches with/without an attached index and cosine evaluations recorded; TLC validates all observations (TraceEmbed.tla)",
   text="TLC checks the loader protocol for every abstract file (header, claimed vs present records, truncation) - allocation proportional to the file, vectors-or-error (a header-trusting reservation is the defect switch); each abstract file is written out for both loaders (huge counts 2^20, 2^28, 2^32-1, truncation points, wrong dimension) and loaded by the real code in a child under an address-space limit, recording outcome and bytes allocated; searches are paired with and without a random attached index (same candidates, scores only raised within 1+alpha, order kept); cosine symmetry, range and guard cases are evaluated on random vectors; TLC validates every recorded observation.",
   note="Float values reach TLC as classes; memory measured as TotalAlloc in the child."),
 "C03": dict(cat="model_checking", ref="DESIGN.md section 5, C03",
   tech="TLA+ spec Index.tla (index / re-ranker snapshots over histories of load, merge, replace, grow): TLC exhaustive; real histories compared with a freshly loaded database and random/shipped databases compared with a reference scan and a BM25F kernel; TLC validates the recorded observations (TraceSearch.tla TScan/THist, recomputing the scan from token ids for small databases)",
   text="TLC explores every history (<= 4/5 steps) of load, merge, replace, grow and search and checks that index and re-ranker snapshots equal the command list whenever a search reads them (a re-ranker rebuilt only on load/merge is the defect switch); real databases are put through random histories (LoadDatabaseWithPersonal, UpdateDatabase, appending to Commands, intermediate searches) and their NLP-on/off answers compared with a freshly loaded database; random databases with hostile field contents (Unicode, punctuation, duplicates, empty fields) and the shipped one are searched and compared with a reference scan and BM25F scores recomputed from the texts; for small databases TLC recomputes the candidate set from token ids.",
   note="Float scores checked by a harness-side kernel (tolerance 1e-9); tokeniser rule is the trusted reference."),
 "C08": dict(cat="model_checking", ref="DESIGN.md section 5, C08",
   tech="TLA+ spec Notebook.tla: TLC exhaustive over save histories from every initial notebook class; every transition executed by the real binary (wtf save / save-pipeline, isolated home); TLC trace validation of walker and random (hostile-argument) save sequences",
   text="TLC explores every sequence of up to 3/4 saves over 3 command strings x 2 field variants from missing, damaged, empty and populated notebooks and checks fidelity, untouched neighbours, replace-not-duplicate and that a reported failure changes nothing; each transition of the dumped graph is run as a real process and the notebook re-read with the repository's loader; random sequences use hostile argument strings through both sub-commands; TLC validates every recorded save: reported success implies the notebook is exactly replace-or-append of the expected entry, the entry is found by the next search, and the search database is main entries followed by notebook entries.",
   note="~5 ms per process; trusted: the expectation of how list flags split (encoding/csv)."),
 "C09": dict(cat="fault_enumeration", ref="DESIGN.md section 5, C09",
   tech="TLA+ spec AtomicWrite.tla (writer steps with crash/fail at every point; TLC exhaustive); the real process's system calls (strace) validated by TLC as a behaviour of the specification; enumeration of faults (write cut at every byte via RLIMIT_FSIZE, error/SIGKILL injected per system call) with TLC checking each outcome",
   text="TLC explores every placement of a crash or failed step in the writer's step sequence and checks the visible content is always old or new and success only reported with the new content (the in-place writer is the defect switch). For the notebook (save, save-pipeline; absent/empty/1/25-entry) and the history (every search; absent/1/40-entry) the real binary's system calls on the file and its directory are recorded and validated against the specification, then the write is cut at every prefix length and every write/openat/rename/fsync/close call is made to fail or the process killed there; TLC checks each outcome: content old or new, loadable, no success message without effect.",
   note="Needs strace (ptrace) and RLIMIT_FSIZE; quick tier tries every 9th prefix length."),
 "C10": dict(cat="model_checking", ref="DESIGN.md section 5, C10",
   tech="TLA+ spec Totality.tla: scenario classes (file shape x text feature x query x options x entry point) and the call/return protocol with the loader's classification table; TLC enumerates the cross product; each scenario executed on the real loader and entry points under a deadline; TLC validates every recorded outcome",
   text="TLC enumerates all 78,400 combinations of file shape (missing, empty, scalar, map, list of scalars, wrong-typed fields, deep nesting, aliases, damaged, binary, huge, directory, valid...), text feature (NUL, invalid UTF-8, 1000-character fields, punctuation only, empty, Unicode), query class, option class (extreme limits/thresholds/caps, NaN/Inf/negative boosts, odd platform lists) and entry point (universal, legacy searches, cached, monitored, suggestions, recovery); a covering sample (all in thorough) is executed on the real code with panic recovery and a deadline and TLC checks that every load outcome is the one the classification allows and every call returned.",
   note="Classes, not bytes: the weakest fit of the family, as DESIGN section 6 says; one representative per class."),
 "C17": dict(cat="model_checking", ref="DESIGN.md section 5, C17",
   tech="TLA+ spec Cli.tla (parse/validate/load/search/recover/record/format/exit stages over scenario classes): TLC model check and scenario enumeration; scenarios executed by the real binary; TLC validates each recorded run (TraceCli.tla)",
   text="TLC explores the stage pipeline of one CLI run for every combination of sub-command, argument shape, query class, --limit class, --format, verbosity, colour switch, platform flags and database class (194,832 scenarios), checking at the design level that every run ends, prints at most the limit in force and records exactly one history entry per accepted search; a pairwise cover plus a random sample of the scenarios is executed by the real binary in an isolated home and TLC checks each run: no crash; for accepted searches the printed commands equal the engine's answer in order (list, table, JSON), the JSON block parses with one object per result, the history gains exactly one newest entry for the cleaned query; rejected searches print nothing and record nothing; no escape sequence with --no-color / NO_COLOR. Every other accepted search is repeated at once with --limit 1 in the same home directory and the newest history entry is compared with what was printed.",
   note="Sampled, not exhaustive, at the process level; oracle replays the documented option set in-process."),
}
NOT_APPLICABLE = {}


def main():
    checks = []
    for pid in sorted(CHECKS):
        c = CHECKS[pid]
        checks.append({
            "property_id": pid,
            "quick_cmd": "./check %s --tier quick" % pid,
            "thorough_cmd": "./check %s --tier thorough" % pid,
            "evidence_file": "/verif/evidence/%s.json" % pid,
            **({"replay_cmd_template": "./check %s --replay {path}" % pid} if pid != "C11" else {}),
            "engine": "check",
            "level_claimed": {"category": c["cat"], "text": c["text"], "design_ref": c["ref"]},
            "level_note": c["note"],
            "technique": c["tech"],
        })
    m = {
        "version": 1,
        "setup_cmd": "cd /verif/harness && cp /repo/go.sum . && GOFLAGS=-mod=mod GOPROXY=off go build -tags verif -o /dev/null ./cmd/vh",
        "hooks": {"guard": "verif",
                  "enable": "go build -tags verif (harness module github.com/Vedant9500/WTF/verifharness with replace => /repo; wtf binary built with -tags verif)",
                  "baseline_off_cmd": "cd /repo && GOFLAGS=-mod=mod GOPROXY=off go test -vet=off -count=1 -timeout 25m ./...",
                  "source_commits": HOOK_COMMITS, "add_only": True},
        "engines": [
            {"name": "check", "path": "/verif/check", "serves_properties": sorted(CHECKS),
             "kind_free_text": "python3 driver: builds the Go harness against /repo with -tags verif, runs TLC (exhaustive model checks, transition dumps, trace validation), classifies verdicts, writes evidence"},
            {"name": "vh", "path": "/verif/harness/cmd/vh", "serves_properties": sorted(CHECKS),
             "kind_free_text": "Go harness: executes TLC-derived tours/scenarios and seeded random drivers on the real packages and records ndjson traces"},
            {"name": "spec", "path": "/verif/spec", "serves_properties": sorted(CHECKS),
             "kind_free_text": "TLA+ specifications (component modules, MC* bounded instances, Trace* trace-validation modules)"}],
        "checks": checks,
        "not_applicable": [{"property_id": k, "reason": v} for k, v in sorted(NOT_APPLICABLE.items())],
        "notes": "Exit codes: 0 held, 1 VIOLATION, 2 infrastructure error (never a violation). Known findings: /verif/known_findings.json.",
    }
    json.dump(m, open(os.path.join(V, "MANIFEST.json"), "w"), indent=1)


if __name__ == "__main__":
    main()
