"""C11 - concurrent searches on one database are race-free and answer as if alone."""
import json, os, re
from core import Infra

CONC_CFG = """SPECIFICATION Spec
CONSTANTS
  Threads <- MCThreads
  Prog <- MCProg
  GetMode = "%(get)s"
  IncMode = "%(inc)s"
  Recheck = %(recheck)s
INVARIANTS MutualExclusion NoLostHit NoLostIncrement OneSeries
CHECK_DEADLOCK FALSE
"""
LIN_CFG = """SPECIFICATION TraceSpec
CONSTANTS
  DefaultCap = 100
  TouchOnGet = TRUE
  TouchOnUpdate = TRUE
  ExpireBy = "created"
INVARIANT NotDone
CHECK_DEADLOCK FALSE
"""
CS_CFG = "SPECIFICATION TraceSpec\nPOSTCONDITION TraceAccepted\nCHECK_DEADLOCK FALSE\n"
DFS = "-Dtlc2.tool.queue.IStateQueue=StateDeque"


def split_histories(path):
    hs, cur = [], None
    for line in open(path):
        line = line.rstrip("\n")
        if not line:
            continue
        if '"kind":"new"' in line:
            cur = []
            hs.append(cur)
        cur.append(line)
    return hs


def linearizable(ctx, hs, tag):
    """TRUE iff TLC finds interleavings of Lin steps consuming every event of the concatenated histories."""
    p = os.path.join(ctx.work, "lin-%s.ndjson" % tag)
    with open(p, "w") as f:
        for h in hs:
            f.write("\n".join(h) + "\n")
    r = ctx.tlc("TraceLRUConc", LIN_CFG, name="lin-" + tag, env={"TRACEFILE": p}, workers=1, timeout=600, jvm=DFS)
    ctx.cov["lin_states"] = ctx.cov.get("lin_states", 0) + r["distinct"]
    if r["violated"] == "NotDone":
        return True
    if r["error"]:
        raise Infra("linearisability check %s: %s\n%s" % (tag, r["error"], r["out"][-1500:]))
    return False


def find_bad(ctx, hs, tag):
    if linearizable(ctx, hs, tag):
        return []
    if len(hs) == 1:
        return [hs[0]]
    mid = len(hs) // 2
    return find_bad(ctx, hs[:mid], tag + "a") + find_bad(ctx, hs[mid:], tag + "b")


def run(ctx):
    q = ctx.quick
    r = ctx.model_check("MCConc", CONC_CFG % dict(get="W", inc="atomic", recheck="TRUE"), name="MCConc-exh")
    ctx.model_check("MCConc", CONC_CFG % dict(get="R", inc="atomic", recheck="TRUE"), name="MCConc-defect-getR", expect_violation="NoLostHit")
    ctx.model_check("MCConc", CONC_CFG % dict(get="W", inc="rmw", recheck="TRUE"), name="MCConc-defect-rmw", expect_violation="NoLostIncrement")
    ctx.model_check("MCConc", CONC_CFG % dict(get="W", inc="atomic", recheck="FALSE"), name="MCConc-defect-norecheck", expect_violation="OneSeries")
    # (1) linearisability of recorded concurrent LRU histories against LRU.tla
    tr = os.path.join(ctx.work, "conc-lru.ndjson")
    i1 = ctx.run_vh(["conc-lru", "-out", tr, "-histories", 400 if q else 4000, "-hot", 4000 if q else 40000])
    if i1.get("hang"):
        ctx.violation("C11|hang|lru", "concurrent operations on one cache.LRUCache (get / put / delete / size / stats from 2-4 goroutines) did not "
                      "return within 60 s after %s histories" % i1.get("histories"), {"histories_completed": i1.get("histories")}, name="hang")
    hs = split_histories(tr)
    nshards = 8
    bad = []
    from concurrent.futures import ThreadPoolExecutor
    with ThreadPoolExecutor(max_workers=nshards) as ex:
        for b in ex.map(lambda i: find_bad(ctx, hs[i::nshards], "s%d" % i), range(nshards)):
            bad += b
    for h in bad[:6]:
        ctx.violation("C11|lru|not-linearizable", "concurrent LRU history with no linearisation consistent with real time: %s" % " ".join(h)[:600],
                      {"events": [json.loads(e) for e in h]}, name="lin")
    # self-test: a corrupted result must be rejected
    h0 = None
    for h in hs:
        for j, e in enumerate(h):
            if '"kind":"ret"' in e and '"op":"get"' in e and '"found":true' in e:
                h0 = list(h)
                ev = json.loads(e)
                ev["rv"] = ev["rv"] + 7
                h0[j] = json.dumps(ev, separators=(",", ":"))
                break
        if h0:
            break
    if h0 is not None and linearizable(ctx, [h0], "selftest"):
        raise Infra("binding self-test failed: a history with a corrupted result was accepted as linearisable")
    # (2) concurrent searches answer as if alone, no lost metric increment; under the race detector
    tr2 = os.path.join(ctx.work, "conc-search.ndjson")
    i2 = ctx.run_vh(["conc-search", "-out", tr2, "-rounds", 6 if q else 30, "-goroutines", 8 if q else 16, "-per", 30 if q else 60],
                    race=True, check=False, timeout=1500, env={"GORACE": "halt_on_error=0 exitcode=66"})
    races = len(re.findall(r"WARNING: DATA RACE", i2["_stderr"]))
    if races:
        first = i2["_stderr"][i2["_stderr"].find("WARNING: DATA RACE"):][:3000]
        fn = re.findall(r"^\s+(github.com/Vedant9500/WTF/\S+)\(\)", first, re.M)
        ctx.violation("C11|race|%s" % (fn[0].split("/")[-1] if fn else "unknown"), "the race detector reports %d data race(s); first:\n%s" % (races, first), first, name="race")
    elif "fatal error: concurrent map" in i2["_stderr"]:
        first = i2["_stderr"][i2["_stderr"].find("fatal error: concurrent map"):][:3000]
        ctx.violation("C11|crash|concurrent-map-access", "the runtime aborted the concurrent searches:\n%s" % first, first, name="race")
    elif i2["_rc"] != 0:
        raise Infra("concurrent search driver failed (exit %d): %s" % (i2["_rc"], i2["_stderr"][-2000:]))
    ok2, rej2 = 0, []
    if os.path.exists(tr2) and os.path.getsize(tr2) > 0:
        ok2, rej2 = ctx.validate_traces(tr2, "TraceConcSearch", CS_CFG, shards=4)
    for x in rej2:
        evs, at = x["trace"], x["at"]
        ev = json.loads(evs[at - 1])
        sig = "C11|hang" if ev["op"] == "chang" else "C11|lost-increment" if ev["op"] == "ctotal" else "C11|caller-options-modified" if ev["op"] == "coptions" else "C11|%s|%s" % ("panic" if ev.get("panic") else "answer-differs", ev.get("entry"))
        ctx.violation(sig, "concurrent run: %s" % evs[at - 1][:300], ev, name="conc")
    cov = {"states": r["distinct"], "transitions": r["generated"], "traces_validated_against_impl": len(hs) - len(bad) + ok2,
           "samples": [[json.loads(e) for e in hs[0][:9]]], "lru_histories": len(hs), "lru_events": i1.get("events"),
           "search_events": i2.get("events"), "race_detector": "on (0 reports)" if not races else "%d reports" % races,
           "model_bounds": "3 threads x 3 operations (get / stats / counter increment / get-or-create), all interleavings of micro-steps",
           "exhaustive": True}
    return "model_checking", cov, [
        "interleavings of the micro-step model are explored exhaustively; real schedules are sampled (barrier-released goroutines)",
        "'no data races' is decided by the Go race detector on the stress run, not by the specification",
        "linearisability: call/return stamps come from one atomic counter taken before the invocation and after the return",
        "'as if alone': each concurrent answer is compared with the answer of the same search run sequentially beforehand (doc indexes, order, score bits)"]
