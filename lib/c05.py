"""C05 - the result cache is invisible: cached answers equal fresh answers."""
import json, os, random
from core import Infra, plan_tours

MC_CFG = """SPECIFICATION Spec
CONSTANTS
  Fields <- MCFields
  KeyFields <- %(key)s
  InvalidateOnUpdate = %(inv)s
  ServeWhenDisabled = %(serve)s
  Fold <- MCFold
  MaxSteps = %(steps)d
VIEW View
INVARIANTS NoEntryOutlivesUpdate
PROPERTIES TransparentA
CHECK_DEADLOCK FALSE
%(extra)s
"""
TRACE_CFG = "SPECIFICATION TraceSpec\nPOSTCONDITION TraceAccepted\nCHECK_DEADLOCK FALSE\n"

REAL_FIELDS = [("limit", 7), ("boost", True), ("boostvar", 1), ("boostvar", 3), ("ponly", True), ("pboost", True), ("fuzzy", True), ("thr", -30), ("nlp", True), ("cap", 1),
               ("allplat", True), ("plats", ["windows"]), ("nocross", True)]
QUERIES = {1: "frobnicate widget", 2: "FROBNICATE Widget", 3: "frobnicte"}
# (query, an admissible re-spelling of it, a different query) with the options they are asked under; the different query of
# the 2nd and 3rd set differs from the first only by a letter whose UPPER case is an ASCII letter (dotless i, long s);
# the 4th set asks for every typo match, including those whose normalised quality is 0
QSETS = [(QUERIES, {}),
         ({1: "frobnicate widget", 2: " Frobnicate WIDGET ", 3: "frobnicate w\u0131dget"}, {}),
         ({1: "sort frobnicate", 2: "SORT Frobnicate", 3: "\u017fort frobnicate"}, {}),
         ({1: "frobnicte", 2: "FROBNICTE", 3: "frobnicate"}, {"fuzzy": True, "limit": 200, "allplat": True})]
BASE = dict(entry="universal", limit=5, nlp=False, fuzzy=False, thr=0, ponly=False, pboost=False, allplat=False, plats=[], nocross=False,
            boost=False, query="raw", corpus="mix")


def real_opts(a, b, fa, fb):
    o = dict(BASE)
    for on, (name, val) in ((a, fa), (b, fb)):
        if on:
            o[name] = val
            if name == "thr":
                o["fuzzy"] = True
    return o


REPLAY = ("TraceCacheLayer", TRACE_CFG)


def signature(events, at):
    ev = json.loads(events[at - 1]) if 0 < at <= len(events) else {}
    if ev.get("op") != "search":
        return "C05|%s" % ev.get("op")
    if ev.get("panic"):
        return "C05|panic"
    # which option fields distinguish this request from the request that stored the entry it was served?
    if ev.get("hit"):
        prev = None
        for l in events[:at - 1]:
            p = json.loads(l)
            if p.get("op") in ("invalidate", "update", "reset"):
                prev = None
            if p.get("op") == "search" and not p.get("hit") and p.get("ans") == ev.get("ans") and p["q"].strip().lower() == ev["q"].strip().lower():
                prev = p
        if prev is not None and prev["o"] != ev["o"]:
            diff = sorted(x.split("=")[0] for x, y in zip(ev["o"].split("|"), prev["o"].split("|")) if x != y)
            return "C05|shared-entry|fields=%s" % ",".join(diff)
        if ev.get("ans") != ev.get("fresh"):
            return "C05|stale-hit"
        return "C05|hit-without-store"
    return "C05|miss-differs-from-fresh"


def run(ctx):
    q = ctx.quick
    rnd = random.Random(ctx.seed)
    r = ctx.model_check("MCCacheLayer", MC_CFG % dict(key="MCFields", inv="TRUE", serve="FALSE", steps=4 if q else 5, extra=""), name="MCCacheLayer-exh")
    ctx.model_check("MCCacheLayer", MC_CFG % dict(key="MCFields", inv="TRUE", serve="TRUE", steps=4, extra=""), name="MCCacheLayer-neutral-serve")
    ctx.model_check("MCCacheLayer", MC_CFG % dict(key="KeyA", inv="TRUE", serve="FALSE", steps=3, extra=""), name="MCCacheLayer-defect-key",
                    expect_violation="TransparentA")
    ctx.model_check("MCCacheLayer", MC_CFG % dict(key="MCFields", inv="FALSE", serve="FALSE", steps=3, extra=""), name="MCCacheLayer-defect-update",
                    expect_violation=("NoEntryOutlivesUpdate", "TransparentA"))
    # transparency for ANY queries / option fields / database versions (TLAPS), under the two conforming switches
    ctx.tlaps("CacheLayerProof")
    dump = os.path.join(ctx.work, "cache-dump.ndjson")
    r2 = ctx.tlc("MCCacheLayer", MC_CFG % dict(key="MCFields", inv="TRUE", serve="FALSE", steps=3 if q else 4, extra="ACTION_CONSTRAINT DumpT"),
                 name="MCCacheLayer-dump", env={"DUMPFILE": dump})
    if r2["error"] or r2["violated"]:
        raise Infra("dump failed: %s %s" % (r2["error"], r2["violated"]))

    def op_of(o):
        if o["op"] == "search":
            return ["search", o["q"], o["a"], o["b"]]
        if o["op"] == "enable":
            return ["enable", bool(o["flag"])]
        if o["op"] == "update":
            return ["update", o["q"]]
        if o["op"] in ("invalidate", "vanish"):
            return [o["op"]]
        return None

    tours, st = plan_tours(dump, lambda s: json.dumps(s, sort_keys=True), op_of, lambda s: {} if s["steps"] == 0 else None,
                           max_tours=400 if q else 2500, rnd=rnd)
    os.remove(dump)
    pairs = [(REAL_FIELDS[i], REAL_FIELDS[(i + 1 + j) % len(REAL_FIELDS)]) for i in range(len(REAL_FIELDS)) for j in range(1 if q else 2)]
    tf = os.path.join(ctx.work, "cache-tours.jsonl")
    nt = 0
    with open(tf, "w") as f:
        for ti, (ini, ops) in enumerate(tours):
            for pi, (fa, fb) in enumerate(pairs):
                if q and (ti + pi) % 3:
                    continue
                real = []
                qset, over = QSETS[(ti + 2 * pi) % len(QSETS)]
                for op in ops:
                    if op[0] == "search":
                        real.append(["search", qset[op[1]], dict(real_opts(op[2], op[3], fa, fb), **over), (ti + pi + len(real)) % 3 == 0])
                    elif op[0] == "vanish":
                        real += [["tick"], ["tick"], ["cleanup"]]
                    elif op[0] == "update":      # what the database is replaced by: permuted, shrunk, empty, single, grown
                        real.append(["update", op[1] + 2 * ((ti + pi + len(real)) % 4 + (0 if op[1] == 2 else 1))])
                    else:
                        real.append(op)
                f.write(json.dumps({"corpus": "mix", "cap": [1, 2, 50][(ti + pi) % 3], "ttl": 1, "ops": real}) + "\n")
                nt += 1
    # directed histories longer than the bounded model reaches in the quick tier: switch the cache off, replace / invalidate,
    # switch it on again; several entries across a replacement; expiry; the same under the monitored entry point
    S = lambda k, a=0, b=0: ["search", k, a, b]
    directed = [
        [S(1), ["enable", False], ["update", 2], ["enable", True], S(1)],
        [S(1), ["enable", False], ["invalidate"], ["enable", True], S(1), S(2)],
        [S(1), S(3), S(1, 1), ["update", 2], S(1), S(3), S(1, 1)],
        [S(1), S(3), ["invalidate"], S(3), S(1)],
        [S(1), ["vanish"], S(1), S(2)],
        [S(1), ["enable", False], S(1), ["update", 2], S(1), ["enable", True], S(1), ["update", 1], S(1)],
        [S(1), S(1, 1), S(1, 0, 1), S(1, 1, 1), ["enable", False], ["update", 2], ["enable", True], S(1, 1, 1), S(1, 0, 1), S(1, 1), S(1)],
    ]
    with open(tf, "a") as f:
        for di, ops in enumerate(directed):
            for pi, (fa, fb) in enumerate(pairs):
                if q and (di + pi) % 2:
                    continue
                real = []
                qset, over = QSETS[(di + pi) % len(QSETS)]
                for op in ops:
                    if op[0] == "search":
                        real.append(["search", qset[op[1]], dict(real_opts(op[2], op[3], fa, fb), **over), (di + pi + len(real)) % 3 == 0])
                    elif op[0] == "vanish":
                        real += [["tick"], ["tick"], ["cleanup"]]
                    elif op[0] == "update":
                        real.append(["update", op[1] + 2 * ((di + pi + len(real)) % 4 + (0 if op[1] == 2 else 1))])
                    else:
                        real.append(op)
                f.write(json.dumps({"corpus": "mix", "cap": [1, 2, 50][(di + pi) % 3 if di != 6 else 2], "ttl": 1, "ops": real}) + "\n")
                nt += 1
    tr1 = os.path.join(ctx.work, "cache-tours.ndjson")
    i1 = ctx.run_vh(["cache-tours", "-in", tf, "-out", tr1], timeout=1500)
    ok1, rej1 = ctx.validate_traces(tr1, "TraceCacheLayer", TRACE_CFG)
    tr2 = os.path.join(ctx.work, "cache-random.ndjson")
    i2 = ctx.run_vh(["cache-random", "-out", tr2, "-traces", 40 if q else 400, "-len", 80 if q else 200], timeout=1500)
    ok2, rej2 = ctx.validate_traces(tr2, "TraceCacheLayer", TRACE_CFG)
    for origin, rej in (("walker", rej1), ("random", rej2)):
        for x in rej:
            evs, at = x["trace"], x["at"]
            ctx.violation(signature(evs, at), "%s history rejected at event %d: %s" % (origin, at, evs[at - 1][:400]),
                          {"origin": origin, "rejected_at": at, "events": [json.loads(e) for e in evs[:at]]}, name=origin)
    cov = {"states": r["distinct"], "transitions": r["generated"], "traces_validated_against_impl": ok1 + ok2,
           "samples": [{"tour": tours[i][1]} for i in range(0, len(tours), max(1, len(tours) // 3))][:3],
           "walker": st, "walker_tours_executed": nt, "walker_events": i1.get("events"), "random_traces": i2.get("traces"),
           "random_events": i2.get("events"), "option_field_pairs": len(pairs), "exhaustive": True,
           "model_bounds": "queries {q, case variant of q, q'}, 2 abstract option fields, 2 database versions, histories <= %d steps over search/monitored search/vanish/invalidate/enable/update" % (4 if q else 5)}
    return "model_checking", cov, [
        "oracle for 'fresh' = SearchUniversal on the same Database object at that moment (the uncached engine itself)",
        "the two abstract option fields of the model are mapped onto pairs of the 11 real option fields in turn, on a corpus where every field changes the answer",
        "a hit is observed through the cache's own hit counter; capacity/lifetime are over-approximated (a miss is always allowed)",
        "answers compared by document index, order and score bits"]
