"""C01 - search returns a bounded, ranked, duplicate-free list of real entries."""
import json, random
import engine
from c02 import shipped_scenarios


REPLAY = ("TraceSearch", engine.TRACE_CFG % '"C01"')


def signature(ev):
    sc = ev["sc"]
    path = ev["path"].replace("cached-", "")
    if ev["panic"]:
        return "C01|panic|entry=%s" % sc["entry"]
    if ev["deflt"] < 1 or ev["deflt"] != ev["defltneg"] or ev["deflt"] >= ev.get("sat", 10 ** 9):
        return "C01|default-limit|entry=%s" % sc["entry"]
    if len(ev["main"]) > ev["efflim"]:
        return "C01|bound|path=%s" % path
    docs = [m[0] for m in ev["main"]]
    if any(d < 0 or d >= ev["n"] for d in docs):
        return "C01|member|path=%s" % path
    if len(set(docs)) != len(docs):
        return "C01|duplicate|path=%s" % path
    if any(m[2] not in (0, 1) for m in ev["main"]):
        return "C01|score-class|path=%s" % path
    return "C01|order|path=%s" % path


def run(ctx):
    q = ctx.quick
    rnd = random.Random(ctx.seed)
    defects = [("fuzzycap", dict(fuzzycap="2limit"), "Bounded"), ("recovercap", dict(reccap="FALSE"), "Bounded")]
    r, scen = engine.model_and_scenarios(ctx, defects=defects)
    total = len(scen)
    if q:
        scen = engine.sample(scen, 3000, rnd, ["entry", "limit", "query", "corpus", "fuzzy", "nlp"])
    extra = []
    for lim in (-1, 0, 1, 3, 5, 11, 12, 13, 40):
        for entry in ("universal", "cached", "cli", "pipeline"):
            for qk in ("lex", "typo"):
                s = dict(entry=entry, limit=lim, nlp=entry == "cli", fuzzy=entry != "pipeline", thr=0, ponly=entry == "pipeline", pboost=False,
                         allplat=False, plats=[], nocross=False, boost=False, query=qk, corpus="tie")
                if entry == "cli":
                    s["thr"] = -30
                    if lim < 0:
                        continue
                extra.append(s)
    # the bound after a related search on the same cache object: every small limit preceded by the same request with
    # no limit / a larger limit (requests that may not share a cached answer)
    for lim in range(1, 13):
        for entry in ("cached", "monitored"):
            for prime in ("limit0", "limitbig"):
                for corpus in ("mix", "tie"):
                    extra.append(dict(entry=entry, limit=lim, nlp=rnd.random() < 0.5, fuzzy=rnd.random() < 0.5, thr=0, ponly=False, pboost=False,
                                      allplat=corpus == "mix", plats=[], nocross=False, boost=False, query="lex", corpus=corpus, prime=prime))
    # the semantic stage: an embedding index attached, intact and damaged (NaN / Inf / huge components in the vectors)
    for corpus in ("sem", "semnan"):
        for entry in ("universal", "cached"):
            for nlp in (False, True):
                for lim in (2, 10, 50):
                    for qk in ("lex", "typo"):
                        extra.append(dict(entry=entry, limit=lim, nlp=nlp, fuzzy=True, thr=0, ponly=False, pboost=False, allplat=True, plats=[],
                                          nocross=False, boost=False, query=qk, corpus=corpus))
    # scores that are equal on paper and differ in the last bits (same words in rotated fields)
    words = ["alphaword", "bravoword", "charlieword"]
    for variant in range(12):
        for perm in ([0, 1, 2], [2, 1, 0], [1, 0, 2], [1, 2, 0]):
            raw = " ".join(words[i] for i in perm)
            for entry in ("search", "universal", "cached", "legacyoptions"):
                extra.append(dict(entry=entry, limit=50, nlp=False, fuzzy=False, thr=0, ponly=False, pboost=False, allplat=True, plats=[],
                                  nocross=False, boost=False, query="raw", raw=raw, corpus="neartie%d" % variant))
    # the typo fallback with a pipeline boost in force (library callers combine them)
    for entry in ("universal", "cached", "legacyfuzzy"):
        for nlp in (False, True):
            for raw in ("frobnicte", "frobnicat widgt", "wdgt nmbr"):
                extra.append(dict(entry=entry, limit=50, nlp=nlp, fuzzy=True, thr=0, ponly=False, pboost=True, allplat=True, plats=[],
                                  nocross=False, boost=False, query="raw", raw=raw, corpus="mix"))
    for raw in ("blrptak", "cemvdiz", "dwyfnsk", "limv", "limvar", "robz", "obzuk", "glimvrn"):
        for entry in ("universal", "cached"):
            for nlp in (False, True):
                extra.append(dict(entry=entry, limit=50, nlp=nlp, fuzzy=True, thr=0, ponly=False, pboost=True, allplat=True, plats=[],
                                  nocross=False, boost=False, query="raw", raw=raw, corpus="uniq"))
    # a database that was searched, grown by appending and searched again (memoised per-database state must follow)
    for corpus in ("grown", "updated"):
        for entry in ("universal", "cached"):
            for raw in ("frobnicte", "blrptak", "frobnicate widget", "delete item", "wdgt nmbr"):
                for nlp in (False, True):
                    extra.append(dict(entry=entry, limit=rnd.choice([2, 10, 50]), nlp=nlp, fuzzy=True, thr=0, ponly=False, pboost=False, allplat=True,
                                      plats=[], nocross=False, boost=False, query="raw", raw=raw, corpus=corpus))
    # the pipeline search entry point with a pipeline boost over pipelines and plain commands alike
    for qk in ("lex", "typo"):
        for lim in (5, 50):
            for corpus in ("mix", "plat"):
                extra.append(dict(entry="pipeline", limit=lim, nlp=False, fuzzy=False, thr=0, ponly=False, pboost=True, allplat=True, plats=[],
                                  nocross=False, boost=False, query=qk, corpus=corpus))
    # a cached answer, the cache switched off, the database replaced, the cache switched on again
    for qk in ("lex", "typo"):
        for nlp in (False, True):
            for lim in (3, 50):
                extra.append(dict(entry="cachedseq", limit=lim, nlp=nlp, fuzzy=True, thr=0, ponly=False, pboost=False, allplat=True, plats=[],
                                  nocross=False, boost=False, query=qk, corpus="mix", prime="none"))
    # context boosts that are not factors (zero, below one, negative, not a number): every score still finite and non-negative
    for bv in (9, 10):
        for entry in ("universal", "cached", "monitored"):
            for nlp in (False, True):
                for raw in ("frobnicate widget", "widget number", "number item", "item", "frobnicate", "widget widget number"):
                    for corpus in ("mix", "tie"):
                        extra.append(dict(entry=entry, limit=50, nlp=nlp, fuzzy=False, thr=0, ponly=False, pboost=False, allplat=True, plats=[],
                                          nocross=False, boost=True, boostvar=bv, query="raw", raw=raw, corpus=corpus))
    extra += shipped_scenarios(rnd, 60 if q else 1500)
    tr, info, ok, rej = engine.run_cases(ctx, scen + extra, ["C01"])
    for x in rej:
        ev = json.loads(x["trace"][x["at"] - 1])
        ctx.violation(signature(ev), "entry %s, options %s, query %r: %d results for limit in force %d on path %s; answer %s" %
                      (ev["sc"]["entry"], {k: v for k, v in ev["sc"].items() if k not in ("entry", "raw")}, ev["q"], len(ev["main"]),
                       ev["efflim"], ev["path"], ev["main"][:12]), ev, name="case")
    n, paths = engine.path_stats(tr)
    cov = {"states": r["distinct"], "transitions": r["generated"], "traces_validated_against_impl": ok,
           "scenarios_total_in_model": total, "scenarios_run": n, "paths": paths, "exhaustive": not q,
           "samples": [json.loads(l)["sc"] for l in open(tr).readlines()[:3]]}
    return "model_checking", cov, [
        "the default limit of each entry point is measured on a saturating probe (limit 0 and -1 must agree) rather than hard-coded",
        "finite / non-negative is evaluated on the real float and reaches TLC as a class; order as raw pairwise comparisons",
        "the CLI flow (validated limit, universal search, recovery search) is replayed in-process here; the real binary is exercised by C17"]
