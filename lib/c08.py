"""C08 - a saved command is stored faithfully, keeps its neighbours, is searchable."""
import json, os, random
from core import Infra, plan_tours

MC_CFG = """SPECIFICATION Spec
CONSTANTS
  SaveMode = "%s"
  MaxSteps = %d
PROPERTIES Props
CHECK_DEADLOCK FALSE
%s
"""
TRACE_CFG = """SPECIFICATION TraceSpec
CONSTANTS
  SaveMode = "replace"
POSTCONDITION TraceAccepted
CHECK_DEADLOCK FALSE
"""


REPLAY = ("TraceNotebook", TRACE_CFG)


def signature(events, at):
    ev = json.loads(events[at - 1]) if 0 < at <= len(events) else {}
    if ev.get("op") != "save":
        return "C08|%s" % ev.get("op")
    if ev.get("crash"):
        note = ev.get("note", "")
        kind = "flag-redefined" if "redefined" in note or "shorthand" in note else "panic"
        return "C08|%s|crash|%s" % (ev["sub"], kind)
    if ev.get("ok") and not ev.get("found"):
        return "C08|%s|not-searchable" % ev["sub"]
    if ev.get("ok") and ev.get("pcheck") and not ev.get("pfound"):
        return "C08|%s|not-found-by-pipeline-search" % ev["sub"]
    if ev.get("ok") and ev.get("cls") != "list":
        return "C08|%s|notebook-unreadable-after-save" % ev["sub"]
    if ev.get("ok"):
        if not any(p == [ev["c"], ev["e"]] for p in ev["ents"]):
            return "C08|%s|entry-not-faithful" % ev["sub"]
        if ev.get("merged") != ev.get("main", []) + ev.get("ents", []):
            return "C08|%s|merge-order" % ev["sub"]
        return "C08|%s|neighbours" % ev["sub"]
    return "C08|%s|failure-changed-file" % ev["sub"]


def run(ctx):
    q = ctx.quick
    ctx.wtf()
    r = ctx.model_check("MCNotebook", MC_CFG % ("replace", 3 if q else 4, ""), name="MCNotebook-exh", workers=4)
    ctx.model_check("MCNotebook", MC_CFG % ("append", 2, ""), name="MCNotebook-defect-append", workers=4, expect_violation="Props")
    dump = os.path.join(ctx.work, "nb-dump.ndjson")
    r2 = ctx.tlc("MCNotebook", MC_CFG % ("replace", 2 if q else 3, "ACTION_CONSTRAINT DumpT"), name="MCNotebook-dump", env={"DUMPFILE": dump})
    if r2["error"] or r2["violated"]:
        raise Infra("dump failed: %s %s" % (r2["error"], r2["violated"]))
    tours, st = plan_tours(dump, lambda s: json.dumps(s, sort_keys=True), lambda o: [o["c"], o["e"]],
                           lambda s: {"cls": s["file"]["cls"], "ents": s["file"]["ents"]} if s["steps"] == 0 else None,
                           max_tours=150 if q else 5000, rnd=random.Random(ctx.seed))
    os.remove(dump)
    tf = os.path.join(ctx.work, "nb-tours.jsonl")
    with open(tf, "w") as f:
        for ini, ops in tours:
            f.write(json.dumps({"init": ini, "ops": ops}) + "\n")
    tr1 = os.path.join(ctx.work, "nb-tours.ndjson")
    i1 = ctx.run_vh(["notebook-tours", "-in", tf, "-out", tr1], timeout=2400)
    ok1, rej1 = ctx.validate_traces(tr1, "TraceNotebook", TRACE_CFG)
    tr2 = os.path.join(ctx.work, "nb-random.ndjson")
    i2 = ctx.run_vh(["notebook-random", "-out", tr2, "-traces", 40 if q else 600, "-len", 6 if q else 10], timeout=2400)
    ok2, rej2 = ctx.validate_traces(tr2, "TraceNotebook", TRACE_CFG)
    for origin, rej in (("walker", rej1), ("random", rej2)):
        for x in rej:
            evs, at = x["trace"], x["at"]
            ctx.violation(signature(evs, at), "%s save sequence rejected at event %d: %s" % (origin, at, evs[at - 1][:500]),
                          {"origin": origin, "rejected_at": at, "events": [json.loads(e) for e in evs[:at]]}, name=origin)
    cov = {"states": r["distinct"], "transitions": r["generated"], "traces_validated_against_impl": ok1 + ok2,
           "samples": [{"init": tours[i][0], "saves": tours[i][1]} for i in range(0, len(tours), max(1, len(tours) // 3))][:3],
           "walker": st, "walker_processes": i1.get("events"), "random_traces": i2.get("traces"), "random_processes": i2.get("events"), "exhaustive": True,
           "model_bounds": "3 command strings x 2 variants of the other fields, <= %d saves from missing / garbage / empty / 1-, 2- and 3-entry notebooks (with a duplicate)" % (3 if q else 4)}
    return "model_checking", cov, [
        "every transition is a real process: wtf save / save-pipeline in an isolated HOME; the notebook is re-read with the repository's loader",
        "expected list flags are computed with encoding/csv, the rule the flag library documents for StringSlice values",
        "entries compared by identity of all six fields; hostile argument strings (YAML indicators, templates, scalars that look like null/bool/number/date, multi-line, control characters, invalid UTF-8, empty) in the random driver",
        "searchability is checked through a marker keyword and 'wtf search --format json' (skipped for command strings the JSON printer cannot echo: empty, control characters, invalid UTF-8)"]
