"""X01 (specification growth, not a listed property) - the TTL map with background clean-up (internal/cache/cache.go):
TTLMap.tla model-checked exhaustively; sequential and concurrent histories of the real cache.Cache checked for
linearisability against it (background clean-up as a silent step).  Reports EXTENSION-FINDING lines, never VIOLATION."""
import json, os
from core import Infra, VERIF
import c11

MC_CFG = """SPECIFICATION Spec
CONSTANTS
  StopTwice = "%s"
  MaxSteps = %d
INVARIANTS NoCrash
PROPERTIES GetOnlyLive
CHECK_DEADLOCK FALSE
"""
LIN_CFG = """SPECIFICATION TraceSpec
CONSTANTS
  StopTwice = "ok"
INVARIANT NotDone
CHECK_DEADLOCK FALSE
"""


def lin(ctx, hs, tag):
    p = os.path.join(ctx.work, "ttl-%s.ndjson" % tag)
    with open(p, "w") as f:
        for h in hs:
            f.write("\n".join(h) + "\n")
    r = ctx.tlc("TraceTTLMap", LIN_CFG, name="ttl-" + tag, env={"TRACEFILE": p}, workers=1, timeout=600, jvm=c11.DFS)
    if r["violated"] == "NotDone":
        return True
    if r["error"]:
        raise Infra("TTL map linearisability %s: %s\n%s" % (tag, r["error"], r["out"][-1200:]))
    return False


def find_bad(ctx, hs, tag):
    if lin(ctx, hs, tag):
        return []
    if len(hs) == 1:
        return [hs[0]]
    m = len(hs) // 2
    return find_bad(ctx, hs[:m], tag + "a") + find_bad(ctx, hs[m:], tag + "b")


def run(ctx):
    q = ctx.quick
    r = ctx.model_check("MCTTLMap", MC_CFG % ("ok", 5 if q else 7), name="MCTTLMap-exh", workers=4)
    ctx.model_check("MCTTLMap", MC_CFG % ("panics", 4), name="MCTTLMap-defect-stoptwice", workers=4, expect_violation="NoCrash")
    tr = os.path.join(ctx.work, "ttlmap.ndjson")
    i = ctx.run_vh(["ttlmap-run", "-out", tr, "-histories", 200 if q else 2000])
    hs = c11.split_histories(tr)
    from concurrent.futures import ThreadPoolExecutor
    bad = []
    with ThreadPoolExecutor(max_workers=8) as ex:
        for b in ex.map(lambda k: find_bad(ctx, hs[k::8], "s%d" % k), range(8)):
            bad += b
    kinds = {}
    for h in bad:
        evs = [json.loads(e) for e in h]
        stops = sum(1 for e in evs if e["kind"] == "call" and e["op"] == "stop")
        k = "a second Stop() panics (close of closed channel)" if any(e.get("panic") for e in evs) and stops >= 2 else "history with no linearisation"
        kinds.setdefault(k, []).append(evs)
    for k, v in kinds.items():
        p = ctx.save_replay("ttlmap", {"finding": k, "events": v[0]})
        print("EXTENSION-FINDING: component=cache.Cache %s (%d histories, e.g. %s)" % (k, len(v), p))
    cov = {"states": r["distinct"], "transitions": r["generated"], "traces_validated_against_impl": len(hs) - len(bad),
           "histories": len(hs), "events": i.get("events"), "findings": {k: len(v) for k, v in kinds.items()},
           "samples": [[json.loads(e) for e in hs[0][:8]]]}
    os.makedirs(os.path.join(VERIF, "evidence-extras"), exist_ok=True)
    json.dump({"id": "X01", "component": "internal/cache/cache.go", "tier": ctx.tier, "seed": ctx.seed, "coverage": cov},
              open(os.path.join(VERIF, "evidence-extras", "X01.json"), "w"), indent=1)
    print("X01 done: %d histories, %d without a linearisation" % (len(hs), len(bad)))
    raise SystemExit(0)
