"""X09 (specification growth, not a listed property) - file modes: Perms.tla model-checked with both values of its switch,
histories of the real secure writer / mode setter / validator validated against the as-built model, and the deviation
the model predicts looked for in the recorded histories."""
import json, os
from core import Infra, VERIF

MC_CFG = """SPECIFICATION Spec
CONSTANTS
  Kinds = {"config", "data", "temp", "executable", "other"}
  Masks = {0, 18, 63, 2}
  Existing = "%s"
PROPERTIES SecureIsAccepted NeverWiderThanWanted %s
CHECK_DEADLOCK FALSE
"""
TRACE_CFG = """SPECIFICATION TraceSpec
CONSTANTS
  Kinds = {}
  Masks = {}
  Existing = "keep"
POSTCONDITION TraceAccepted
CHECK_DEADLOCK FALSE
"""


def run(ctx):
    q = ctx.quick
    r = ctx.tlc("Perms", MC_CFG % ("reset", "WrittenIsAccepted"), name="perms-reset", workers=2)
    if r["error"] or "is violated" in r["out"] or not r["distinct"]:
        raise Infra("X09: Perms.tla does not hold as designed: %s" % (r["error"] or r["out"][-800:]))
    r2 = ctx.tlc("Perms", MC_CFG % ("keep", "WrittenIsAccepted"), name="perms-keep", workers=2)
    dev = "Action property WrittenIsAccepted is violated" in r2["out"]
    r3 = ctx.tlc("Perms", MC_CFG % ("keep", ""), name="perms-keep-rest", workers=2)
    if "is violated" in r3["out"]:
        raise Infra("X09: SecureIsAccepted / NeverWiderThanWanted fail in the as-built model")
    tr = os.path.join(ctx.work, "perms.ndjson")
    i = ctx.run_vh(["perms-random", "-out", tr, "-traces", 100 if q else 1500, "-len", 30 if q else 60], timeout=1500)
    ok, rej = ctx.validate_traces(tr, "TracePerms", TRACE_CFG, max_rejects=6)
    kinds = {}
    for x in rej:
        evs, at = x["trace"], x["at"]
        ev = json.loads(evs[at - 1])
        kinds.setdefault("%s (%s): not the as-built specification's outcome" % (ev["op"], ev.get("kind") or "-"), []).append([json.loads(e) for e in evs[:at]])
    for k, v in kinds.items():
        p = ctx.save_replay("perms", {"finding": k, "events": v[0]})
        print("EXTENSION-FINDING: component=validation (permissions): %s (%d histories, e.g. %s)" % (k, len(v), p))
    lines = [json.loads(l) for l in open(tr)]
    ops, seen, cur = {}, [], []
    for e in lines:
        kk = e["op"] + (":" + e["verdict"] if e["op"] == "validate" else "")
        ops[kk] = ops.get(kk, 0) + 1
        cur = [e] if e["op"] == "begin" else cur + [e]
        if e["op"] == "write" and e["ok"] and (e["mode"] & 0o002 or (e["kind"] in ("config", "temp") and e["mode"] & 0o020)):
            seen.append(list(cur))
    text = "WriteSecureFile leaves an existing file's mode alone: a config file that is world- or group-writable before the write is still so afterwards, and ValidateFilePermissions rejects the file the secure writer has just written"
    if dev and seen:
        p = ctx.save_replay("perms-WrittenIsAccepted", {"finding": text, "events": min(seen, key=len)})
        print("EXTENSION-FINDING: component=validation.SecureFileOperations: %s - predicted by Perms.tla (WrittenIsAccepted fails as built), observed after %d of %d real writes, e.g. %s"
              % (text, len(seen), ops.get("write", 0), p))
    elif dev != bool(seen):
        print("X09 note: WrittenIsAccepted - model says %s, real histories say %s" % (dev, bool(seen)))
    # binding self-test: a verdict changed from "world" to "ok" must be rejected
    bad = None
    for k, e in enumerate(lines):
        if e["op"] == "validate" and e["verdict"] == "world":
            first = next(j for j in range(k, -1, -1) if lines[j]["op"] == "begin")
            bad = [dict(x) for x in lines[first:k + 1]]
            bad[-1]["verdict"] = "ok"
            break
    if bad is None:
        raise Infra("X09: no world-writable verdict was recorded")
    p = os.path.join(ctx.work, "perms-selftest.ndjson")
    open(p, "w").write("".join(json.dumps(e, separators=(",", ":")) + "\n" for e in bad))
    ok2, rej2 = ctx.validate_traces(p, "TracePerms", TRACE_CFG, max_rejects=1)
    if not rej2:
        raise Infra("X09 binding self-test failed: a wrong verdict was accepted")
    cov = {"model": {"states_designed": r["distinct"], "as_built_deviation_WrittenIsAccepted": dev}, "histories": i.get("traces"), "events": i.get("events"),
           "by_event": ops, "as_built_observed": len(seen), "traces_validated_against_impl": ok, "findings": {k: len(v) for k, v in kinds.items()},
           "binding_selftest": "a world-writable verdict changed to ok is rejected", "samples": lines[:4]}
    os.makedirs(os.path.join(VERIF, "evidence-extras"), exist_ok=True)
    json.dump({"id": "X09", "component": "internal/validation (permissions)", "tier": ctx.tier, "seed": ctx.seed, "coverage": cov},
              open(os.path.join(VERIF, "evidence-extras", "X09.json"), "w"), indent=1)
    print("X09 done: %d histories, %d rejected" % (ok + len(rej), len(rej)))
    raise SystemExit(0)
