"""X04 (specification growth, not a listed property) - which database file a command reads and which settings are
accepted: ConfigPath.tla model-checked (with its design switch) and executions of the real config.Config in scratch
working directories validated against it."""
import json, os
from core import Infra, VERIF

MC_CFG = """SPECIFICATION Spec
CONSTANTS
  Names <- MCNames
  Fallbacks <- MCFallbacks
  Order = "%s"
PROPERTIES ConfiguredWins AnswerFresh Earliest
INVARIANTS StableOK
"""
TRACE_CFG = """SPECIFICATION TraceSpec
CONSTANTS
  Names <- RealNames
  Fallbacks <- RealFallbacks
  Order = "listed"
POSTCONDITION TraceAccepted
CHECK_DEADLOCK FALSE
"""


def run(ctx):
    q = ctx.quick
    r = ctx.tlc("MCConfigPath", MC_CFG % "listed", name="cfg-listed", workers=4)
    if r["violated"] or r["error"] or not r["distinct"]:
        raise Infra("X04: ConfigPath.tla does not hold as designed: %s %s" % (r["violated"], r["error"]))
    r2 = ctx.tlc("MCConfigPath", MC_CFG % "last", name="cfg-last", workers=4)
    if "Earliest" not in r2["out"] or "is violated" not in r2["out"]:
        raise Infra("X04: the design switch Order=last does not produce its counter-example")
    tr = os.path.join(ctx.work, "config.ndjson")
    i = ctx.run_vh(["config-random", "-out", tr, "-traces", 100 if q else 1500, "-len", 40 if q else 80], timeout=1500)
    ok, rej = ctx.validate_traces(tr, "TraceConfigPath", TRACE_CFG, max_rejects=6)
    kinds = {}
    for x in rej:
        evs, at = x["trace"], x["at"]
        ev = json.loads(evs[at - 1])
        kinds.setdefault("%s differs from the specification" % ev["op"], []).append([json.loads(e) for e in evs[:at]])
    for k, v in kinds.items():
        p = ctx.save_replay("config", {"finding": k, "events": v[0]})
        print("EXTENSION-FINDING: component=config: %s (%d histories, e.g. %s)" % (k, len(v), p))
    ops, fb = {}, {}
    for l in open(tr):
        e = json.loads(l)
        ops[e["op"]] = ops.get(e["op"], 0) + 1
        if e["op"] == "ask":
            k = "(nothing exists: configured name)" if e["got"] not in e["exist"] else "(absolute configured name)" if e["got"].endswith("/abs.yml") else e["got"]
            fb[k] = fb.get(k, 0) + 1
    # binding self-test: an answer replaced by another existing candidate must be rejected
    lines = [json.loads(l) for l in open(tr)]
    bad = None
    for k, e in enumerate(lines):
        if e["op"] == "ask" and len(e["exist"]) >= 2:
            first = next(j for j in range(k, -1, -1) if lines[j]["op"] == "begin")
            t = [dict(x) for x in lines[first:k + 1]]
            t[-1]["got"] = [n for n in e["exist"] if n != e["got"]][0]
            bad = t
            break
    if bad is None:
        raise Infra("X04: no resolution with two existing candidates was recorded")
    p = os.path.join(ctx.work, "config-selftest.ndjson")
    open(p, "w").write("".join(json.dumps(e, separators=(",", ":")) + "\n" for e in bad))
    ok2, rej2 = ctx.validate_traces(p, "TraceConfigPath", TRACE_CFG, max_rejects=1)
    if not rej2:
        raise Infra("X04 binding self-test failed: a wrong answer was accepted")
    cov = {"model": {"states": r["distinct"], "switch_last_counterexample": "Earliest"}, "histories": i.get("traces"), "events": i.get("events"),
           "by_event": ops, "answers": fb, "traces_validated_against_impl": ok, "findings": {k: len(v) for k, v in kinds.items()},
           "binding_selftest": "an answer replaced by another existing candidate is rejected", "samples": lines[:4]}
    os.makedirs(os.path.join(VERIF, "evidence-extras"), exist_ok=True)
    json.dump({"id": "X04", "component": "internal/config", "tier": ctx.tier, "seed": ctx.seed, "coverage": cov},
              open(os.path.join(VERIF, "evidence-extras", "X04.json"), "w"), indent=1)
    print("X04 done: %d histories, %d rejected" % (ok + len(rej), len(rej)))
    raise SystemExit(0)
