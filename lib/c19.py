"""C19 - semantic embeddings are strictly optional and their files cannot hurt."""
import json, os
from core import Infra

MC_CFG = """SPECIFICATION Spec
CONSTANTS
  CountTrusted = "%s"
  Slack = 2
INVARIANTS Proportional OutcomeOK VectorsOnlyIfComplete
CHECK_DEADLOCK FALSE
%s
"""
TRACE_CFG = "SPECIFICATION TraceSpec\nPOSTCONDITION TraceAccepted\nCHECK_DEADLOCK FALSE\n"


REPLAY = ("TraceEmbed", TRACE_CFG)


def signature(ev):
    if ev["op"] == "load":
        kind = ev["file"].split()[0]
        if ev["outcome"] not in ("vectors", "error"):
            return "C19|load|%s|%s" % (kind, ev["outcome"])
        if ev["alloc_kb"] > 64 * ev["size_kb"] + 24000:
            return "C19|load|%s|allocation-out-of-proportion" % kind
        return "C19|load|%s|vectors-from-incomplete-file" % kind
    if ev["op"] == "sem":
        if ev["panic"]:
            return "C19|semantic|panic"
        if set(ev["with"]) != set(ev["without"]):
            return "C19|semantic|candidates"
        if any(c[1] not in (0, 1) for c in ev["cmp"]):
            return "C19|semantic|score-lowered"
        if any(c[2] != 1 for c in ev["cmp"]):
            return "C19|semantic|factor-unbounded"
        if any(o < 0 for o in ev["order"]):
            return "C19|semantic|order"
        return "C19|semantic|absent-index-differs"
    return "C19|cosine|%s|%s" % (ev.get("guard"), "asymmetric" if not ev.get("sym") else ev.get("cls"))


def run(ctx):
    q = ctx.quick
    r = ctx.model_check("MCEmbed", MC_CFG % ("bounded", ""), name="MCEmbed-exh", workers=4)
    ctx.model_check("MCEmbed", MC_CFG % ("header", ""), name="MCEmbed-defect-header", workers=4, expect_violation="Proportional")
    dump = os.path.join(ctx.work, "embed-files.ndjson")
    r2 = ctx.tlc("MCEmbed", MC_CFG % ("bounded", "CONSTRAINT DumpS"), name="MCEmbed-dump", env={"DUMPFILE": dump})
    if r2["error"] or r2["violated"]:
        raise Infra("dump failed: %s %s" % (r2["error"], r2["violated"]))
    lines = list(dict.fromkeys(l.strip() for l in open(dump) if l.strip()))
    with open(dump, "w") as f:
        f.write("\n".join(lines) + "\n")
    tr = os.path.join(ctx.work, "embed.ndjson")
    i = ctx.run_vh(["embed-run", "-in", dump, "-out", tr, "-sem", 200 if q else 3000, "-cos", 2000 if q else 50000], timeout=2400)
    ok, rej = ctx.validate_traces(tr, "TraceEmbed", TRACE_CFG, max_rejects=8)
    for x in rej:
        ev = json.loads(x["trace"][x["at"] - 1])
        ctx.violation(signature(ev), "%s" % json.dumps({k: v for k, v in ev.items() if v not in ([], 0, "", False, None)})[:500], ev, name=ev["op"])
    kinds = {}
    for l in open(tr):
        e = json.loads(l)
        kinds[e["op"]] = kinds.get(e["op"], 0) + 1
    cov = {"states": r["distinct"], "transitions": r["generated"], "traces_validated_against_impl": ok, "observations": kinds,
           "abstract_files_in_model": len(lines), "samples": [json.loads(l) for l in open(tr).readlines()[:2]], "exhaustive": True,
           "model_bounds": "files: header present/absent x claimed count {0,1,2,3,huge} x complete records {0..3} x truncated tail; each materialised for both loaders, huge = 2^20, 2^28, 2^32-1, and a wrong dimension"}
    return "model_checking", cov, [
        "each file is loaded in its own child process under RLIMIT_AS = 3 GiB; allocation = runtime.MemStats.TotalAlloc delta; allowed 64 x file size + 24 MB",
        "the semantic stage is exercised through the VerifAttachEmbeddings hook with random 8-dimensional indexes (also too short, too long, zero vectors)",
        "cosine range and symmetry are evaluated on the real floats (slack 1e-9 for rounding) and reach TLC as classes; NaN/Inf components are not generated",
        "the specification carries the loader protocol and the guard structure; floating-point values are outside it"]
