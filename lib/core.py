"""Shared engines of the /verif checks: build, TLC runs, trace validation,
verdict classification, evidence.  Python 3 standard library only."""
import json, os, re, shutil, subprocess, sys, time, hashlib
from concurrent.futures import ThreadPoolExecutor

VERIF = os.path.dirname(os.path.dirname(os.path.abspath(__file__)))
REPO = os.environ.get("VERIF_REPO", "/repo")
SPEC = os.path.join(VERIF, "spec")
HARNESS = os.path.join(VERIF, "harness")
TLC_CP = "/opt/veriftools/tla/tla2tools.jar:/opt/veriftools/tla/CommunityModules-deps.jar"


class Infra(Exception):
    """Infrastructure trouble: never a violation (exit 2)."""


def log(*a):
    print(*a, file=sys.stderr, flush=True)


def goenv():
    e = dict(os.environ)
    e["GOFLAGS"] = "-mod=mod"
    e["GOPROXY"] = "off"
    e.pop("GOSUMDB", None)
    e.pop("GOTOOLCHAIN", None)
    return e


class Ctx:
    def __init__(self, prop, tier, seed):
        self.prop, self.tier, self.seed = prop, tier, seed
        self.t0 = time.time()
        self.work = os.path.join(VERIF, ".work", "%s-%d" % (prop, os.getpid()))
        shutil.rmtree(self.work, ignore_errors=True)
        os.makedirs(self.work)
        self.violations = []      # dicts: sig, what, replay
        self.cov = {}             # coverage keys
        self.assumptions = []
        self.notes = []
        self._vh = None
        self._wtf = None
        self.tlc_runs = []
        self.quick = tier == "quick"

    # ---- builds -------------------------------------------------------
    def harness_dir(self):
        """A private copy of the harness module whose replace directive points at REPO."""
        d = os.path.join(self.work, "harness")
        if not os.path.isdir(d):
            shutil.copytree(HARNESS, d)
            gm = open(os.path.join(d, "go.mod")).read()
            gm = re.sub(r"=> /repo\b", "=> " + REPO, gm)
            open(os.path.join(d, "go.mod"), "w").write(gm)
            shutil.copy(os.path.join(REPO, "go.sum"), os.path.join(d, "go.sum"))
        return d

    def vh(self):
        if self._vh is None:
            out = os.path.join(self.work, "vh")
            d = self.harness_dir()
            r = subprocess.run(["go", "build", "-tags", "verif", "-o", out, "./cmd/vh"], cwd=d, env=goenv(),
                               capture_output=True, text=True)
            if r.returncode != 0:
                raise Infra("harness does not build against %s:\n%s" % (REPO, r.stderr[-3000:]))
            self._vh = out
        return self._vh

    def vh_race(self):
        out = os.path.join(self.work, "vh-race")
        if not os.path.exists(out):
            d = self.harness_dir()
            e = goenv(); e["CGO_ENABLED"] = "1"
            r = subprocess.run(["go", "build", "-race", "-tags", "verif", "-o", out, "./cmd/vh"], cwd=d, env=e,
                               capture_output=True, text=True)
            if r.returncode != 0:
                raise Infra("race-enabled harness does not build:\n%s" % r.stderr[-3000:])
        return out

    def wtf(self):
        if self._wtf is None:
            out = os.path.join(self.work, "wtf")
            r = subprocess.run(["go", "build", "-tags", "verif", "-o", out, "./cmd/wtf"], cwd=REPO, env=goenv(),
                               capture_output=True, text=True)
            if r.returncode != 0:
                raise Infra("wtf binary does not build:\n%s" % r.stderr[-3000:])
            self._wtf = out
        return self._wtf

    def run_vh(self, args, timeout=1200, race=False, env=None, check=True):
        e = dict(os.environ)
        e["VERIF_SEED"] = str(self.seed)
        e["VERIF_TIER"] = self.tier
        e["VERIF_REPO"] = REPO
        if self._wtf:
            e["VERIF_WTF"] = self._wtf
        if env:
            e.update(env)
        exe = self.vh_race() if race else self.vh()
        try:
            r = subprocess.run([exe] + [str(a) for a in args], capture_output=True, text=True, timeout=timeout, env=e,
                               cwd=self.work)
        except subprocess.TimeoutExpired:
            raise Infra("harness %s timed out after %ds" % (args[0], timeout))
        if check and r.returncode != 0:
            raise Infra("harness %s failed (exit %d):\n%s" % (args[0], r.returncode, (r.stderr or r.stdout)[-3000:]))
        info = {}
        for line in r.stdout.splitlines():
            line = line.strip()
            if line.startswith("{"):
                try:
                    info.update(json.loads(line))
                except ValueError:
                    pass
        info["_rc"] = r.returncode
        info["_stdout"] = r.stdout
        info["_stderr"] = r.stderr
        return info

    # ---- TLC ----------------------------------------------------------
    def tlc(self, module, cfg_text, name=None, env=None, workers=1, timeout=900, jvm="", extra=()):
        """Run TLC on spec/<module>.tla with the given cfg text in a scratch copy.  Returns a dict."""
        name = name or module
        d = os.path.join(self.work, "tlc-" + name)
        shutil.rmtree(d, ignore_errors=True)
        os.makedirs(d)
        for f in os.listdir(SPEC):
            if f.endswith(".tla"):
                shutil.copy(os.path.join(SPEC, f), d)
        open(os.path.join(d, module + ".cfg"), "w").write(cfg_text)
        e = dict(os.environ)
        if env:
            e.update({k: str(v) for k, v in env.items()})
        gc = ["-XX:+UseParallelGC"] if workers > 1 else ["-XX:+UseSerialGC", "-Xmx3g"]
        cmd = ["timeout", str(timeout), "java"] + gc + ["-Xss64m"] + (jvm.split() if jvm else []) + \
              ["-cp", TLC_CP, "tlc2.TLC", "-workers", str(workers), "-metadir", os.path.join(d, "meta"),
               "-config", module + ".cfg"] + list(extra) + [module + ".tla"]
        t0 = time.time()
        r = subprocess.run(cmd, cwd=d, env=e, capture_output=True, text=True)
        out = r.stdout + r.stderr
        res = {"name": name, "rc": r.returncode, "out": out, "wall": time.time() - t0, "dir": d,
               "generated": 0, "distinct": 0, "depth": 0, "violated": None, "rejected_at": None, "error": None}
        m = re.findall(r"(\d+) states generated, (\d+) distinct states found", out)
        if m:
            res["generated"], res["distinct"] = int(m[-1][0]), int(m[-1][1])
        m = re.search(r"depth of the complete state graph search is (\d+)", out)
        if m:
            res["depth"] = int(m.group(1))
        m = re.search(r"Error: Invariant (\S+) is violated", out)
        if m:
            res["violated"] = m.group(1)
        m = re.search(r"Error: Action property (\S+) is violated", out)
        if m:
            res["violated"] = m.group(1)
        if res["violated"]:
            sn = [int(x) for x in re.findall(r"^State (\d+):", out, re.M)]
            if sn:
                res["depth"] = max(sn)
        m = re.search(r"TRACE_REJECTED_AT\D+(\d+)", out)
        if m:
            res["rejected_at"] = int(m.group(1))
        if r.returncode == 124:
            res["error"] = "timeout after %ds" % timeout
        elif res["violated"] is None and res["rejected_at"] is None:
            errs = [l for l in out.splitlines() if l.startswith("Error:")]
            if errs or "Model checking completed" not in out and "Finished in" not in out:
                res["error"] = "; ".join(errs[:3]) or ("TLC ended abnormally (rc %d): %s" % (r.returncode, out[-800:]))
        self.tlc_runs.append({k: res[k] for k in ("name", "generated", "distinct", "depth", "wall", "violated")})
        shutil.rmtree(os.path.join(d, "meta"), ignore_errors=True)
        return res

    def tlaps(self, module, timeout=600):
        """Check a TLAPS proof module in a scratch copy; returns (obligations, proved)."""
        d = os.path.join(self.work, "tlaps-" + module)
        shutil.rmtree(d, ignore_errors=True)
        os.makedirs(d)
        for f in os.listdir(SPEC):
            if f.endswith(".tla"):
                shutil.copy(os.path.join(SPEC, f), d)
        try:
            r = subprocess.run(["timeout", str(timeout), "tlapm", "--threads", "8", module + ".tla"], cwd=d, capture_output=True, text=True)
        except FileNotFoundError:
            raise Infra("tlapm is not installed")
        out = r.stdout + r.stderr
        m = re.search(r"All (\d+) obligations? proved", out)
        if m:
            n = int(m.group(1))
            self.cov["tlaps_" + module] = {"obligations": n, "discharged": n}
            return n, n
        m = re.search(r"(\d+)/(\d+) obligations? failed", out)
        raise Infra("TLAPS proof %s not checked: %s" % (module, (m.group(0) if m else out[-600:])))

    def model_check(self, module, cfg_text, name=None, workers=8, timeout=1500, env=None, expect_violation=None):
        """Exhaustive run.  The properties must hold on the model (a model-level counterexample is an
        infrastructure problem of the spec for the *current* design switches, never a VIOLATION by itself).
        With expect_violation, the run must end in that violation (defect-switch regeneration)."""
        r = self.tlc(module, cfg_text, name=name, workers=workers, timeout=timeout, env=env)
        if r["error"]:
            raise Infra("TLC %s: %s" % (r["name"], r["error"]))
        if expect_violation:
            exp = expect_violation if isinstance(expect_violation, (list, tuple, set)) else [expect_violation]
            if r["violated"] not in exp:
                raise Infra("TLC %s: expected the defect configuration to violate %s, got %r" %
                            (r["name"], expect_violation, r["violated"]))
        elif r["violated"]:
            raise Infra("TLC %s: model violates %s under the design switches describing the current tree; "
                        "spec and code disagree at the design level:\n%s" % (r["name"], r["violated"], r["out"][-2500:]))
        return r

    # ---- trace validation ----------------------------------------------
    def validate_traces(self, trace_file, module, cfg_text, shards=12, timeout=240, env=None, max_rejects=4,
                        group_key="tr", jvm=""):
        """Validate a file of concatenated traces (events carry a trace id under group_key; the first event
        of each trace is its reset).  Returns (n_traces_accepted, rejects) where rejects is a list of
        dicts {trace: [...events], at: index within trace}."""
        traces = []
        cur, curid = None, None
        with open(trace_file) as f:
            for line in f:
                line = line.rstrip("\n")
                if not line:
                    continue
                m = re.search(r'"%s":(-?\d+)' % group_key, line)
                tid = m.group(1) if m else None
                if tid != curid or cur is None:
                    cur = []
                    traces.append(cur)
                    curid = tid
                cur.append(line)
        if not traces:
            raise Infra("no traces recorded in %s" % trace_file)
        total_events = sum(len(t) for t in traces)
        shards = max(1, min(shards, len(traces)))
        # balance by events
        buckets = [[] for _ in range(shards)]
        sizes = [0] * shards
        for t in sorted(traces, key=len, reverse=True):
            i = sizes.index(min(sizes))
            buckets[i].append(t)
            sizes[i] += len(t)
        rejects = []
        states = [0, 0]

        def run_shard(si):
            mine = list(buckets[si])
            out = []
            rounds = 0
            while mine:
                rounds += 1
                path = os.path.join(self.work, "shard-%s-%d.ndjson" % (module, si))
                with open(path, "w") as f:
                    for t in mine:
                        f.write("\n".join(t) + "\n")
                ev = {"TRACEFILE": path}
                if env:
                    ev.update(env)
                r = self.tlc(module, cfg_text, name="%s-s%d" % (module, si), env=ev, workers=1, timeout=timeout, jvm=jvm)
                states[0] += r["generated"]; states[1] += r["distinct"]
                if r["error"] and r["rejected_at"] is None and r["violated"] is None:
                    raise Infra("trace validation %s shard %d: %s\n%s" % (module, si, r["error"], r["out"][-1500:]))
                if r["rejected_at"] is None and r["violated"] is None:
                    break
                # postcondition: first unmatched event = diameter; invariant: the event leading to the bad state
                at = r["rejected_at"] if r["rejected_at"] is not None else max(1, r["depth"] - 1)
                # locate the trace containing event number `at` (1-based)
                pos = 0
                hit = None
                for j, t in enumerate(mine):
                    if at <= pos + len(t):
                        hit = j
                        break
                    pos += len(t)
                if hit is None:
                    hit = len(mine) - 1
                    pos -= 0
                t = mine.pop(hit)
                out.append({"trace": t, "at": max(1, at - pos), "why": r["violated"] or "no spec action matches the recorded event"})
                if len(out) >= max_rejects:
                    break
            return out

        with ThreadPoolExecutor(max_workers=min(shards, 14)) as ex:
            for o in ex.map(run_shard, range(shards)):
                rejects.extend(o)
        self.cov["trace_events"] = self.cov.get("trace_events", 0) + total_events
        self.cov["trace_validation_states"] = self.cov.get("trace_validation_states", 0) + states[1]
        return len(traces) - len(rejects), rejects

    # ---- verdicts ------------------------------------------------------
    def save_replay(self, name, content):
        d = os.path.join(os.environ.get("VERIF_OUT", VERIF), "replays")
        os.makedirs(d, exist_ok=True)
        p = os.path.join(d, "%s-%s-%s.json" % (self.prop, name, hashlib.sha1(
            (content if isinstance(content, str) else json.dumps(content, sort_keys=True)).encode()).hexdigest()[:10]))
        with open(p, "w") as f:
            if isinstance(content, str):
                f.write(content)
            else:
                json.dump(content, f, indent=1)
        return p

    def violation(self, sig, what, replay_content, name="v"):
        """Record an observation of the real code that the specification does not allow."""
        for v in self.violations:
            if v["sig"] == sig and len([x for x in self.violations if x["sig"] == sig]) >= 3:
                v["count"] = v.get("count", 1) + 1
                return
        p = self.save_replay(name, replay_content)
        self.violations.append({"sig": sig, "what": what, "replay": p})


def load_known():
    p = os.path.join(VERIF, "known_findings.json")
    if not os.path.exists(p):
        return []
    return json.load(open(p)).get("findings", [])


def finish(ctx, level, coverage, assumptions):
    """Classify violations against the known findings, print verdict lines, write evidence, return exit code."""
    known = [k for k in load_known() if k.get("property") == ctx.prop and k.get("status") == "known"]
    real, kf = [], {}
    for v in ctx.violations:
        hit = None
        for k in known:
            if re.fullmatch(k["signature"], v["sig"]):
                hit = k
                break
        if hit:
            kf.setdefault(hit["signature"], (hit, []))[1].append(v)
        else:
            real.append(v)
    for sig, (k, vs) in kf.items():
        print("KNOWN-FINDING: property=%s %s (signature %s, %d observation(s), e.g. %s)" %
              (ctx.prop, k["what"], sig, len(vs), vs[0]["replay"]))
    for v in real:
        print("VIOLATION property=%s replay=%s" % (ctx.prop, v["replay"]))
        print("  signature: %s" % v["sig"])
        print("  what: %s" % v["what"])
    cov = dict(coverage)
    cov.update({k: v for k, v in ctx.cov.items() if k not in cov})
    cov["tlc_runs"] = ctx.tlc_runs[:40]
    cov["known_findings_observed"] = sorted(kf.keys())
    if ctx.notes:
        cov["notes"] = ctx.notes
    ev = {"property_id": ctx.prop, "tier": ctx.tier, "seed": ctx.seed, "level": level, "coverage": cov,
          "assumptions": assumptions + ctx.assumptions, "wall_s": round(time.time() - ctx.t0, 2),
          "violations": len(real)}
    out = os.environ.get("VERIF_OUT", VERIF)     # (self-validation runs against patched copies write elsewhere)
    os.makedirs(os.path.join(out, "evidence"), exist_ok=True)
    with open(os.path.join(out, "evidence", ctx.prop + ".json"), "w") as f:
        json.dump(ev, f, indent=1, default=str)
    if not os.environ.get("VERIF_KEEP"):
        shutil.rmtree(ctx.work, ignore_errors=True)
    try:
        os.rmdir(os.path.join(VERIF, ".work"))
    except OSError:
        pass
    print("%s %s tier=%s seed=%d wall=%.1fs violations=%d known=%d" %
          (ctx.prop, "FAIL" if real else "ok", ctx.tier, ctx.seed, time.time() - ctx.t0, len(real), len(kf)))
    return 1 if real else 0


# ---- walker: tours through a dumped transition relation -----------------
def plan_tours(dump_file, state_key, op_of, init_of, max_tours=None, rnd=None, keep=None):
    """dump_file: one JSON transition {from, op, to} per line.  Plans operation sequences such that every
    (state, operation-label) pair of the explored graph is the last step of some tour (breadth-first tree
    path to the state, then the operation).  Tours that are prefixes of other tours are merged away.
    Returns (tours, stats); a tour is (init_descriptor, [ops])."""
    edges = {}
    alts = {}
    tos = set()
    order = []
    n = 0
    with open(dump_file) as f:
        for line in f:
            line = line.strip()
            if not line:
                continue
            if line.startswith('"'):
                line = json.loads(line)
            t = json.loads(line)
            n += 1
            fk, tk = state_key(t["from"]), state_key(t["to"])
            op = op_of(t["op"])
            if op is None:
                continue
            lab = json.dumps(op)
            d = edges.setdefault(fk, {})
            if lab not in d:
                d[lab] = (op, tk, t["to"])
            elif d[lab][1] != tk:      # a free choice of the specification: remember every outcome
                alts.setdefault((fk, lab), set()).add(tk)
            order.append((fk, t["from"]))
            tos.add(tk)
    # initial states: states that satisfy init_of (returns descriptor or None)
    parent = {}
    queue = []
    seen_states = {}
    for fk, st in order:
        if fk in seen_states:
            continue
        seen_states[fk] = st
        ini = init_of(st)
        if ini is not None and fk not in parent:
            parent[fk] = (None, None, ini)
            queue.append(fk)
    i = 0
    covered_tree = set()
    while i < len(queue):
        s = queue[i]; i += 1
        for lab, (op, tk, _) in edges.get(s, {}).items():
            if tk not in parent:
                parent[tk] = (s, op, None)
                covered_tree.add((s, lab))
                queue.append(tk)
            for ak in sorted(alts.get((s, lab), ())):     # the implementation decides which outcome is taken
                if ak not in parent:
                    parent[ak] = (s, op, None)
                    queue.append(ak)

    def path(s):
        ops = []
        while True:
            p, op, ini = parent[s]
            if p is None:
                return ini, list(reversed(ops))
            ops.append(op)
            s = p

    # a tour per edge whose target is not extended by the tree through this edge, i.e. leaves + non-tree edges
    tours = []
    npairs = 0
    for s in queue:
        for lab, (op, tk, _) in edges.get(s, {}).items():
            npairs += 1
            is_tree = (s, lab) in covered_tree
            if is_tree and edges.get(tk):
                continue   # every tour through an out-edge of tk passes through this tree edge
            ini, ops = path(s)
            tours.append((ini, ops + [op]))
    planned = len(tours)
    if max_tours and len(tours) > max_tours:
        rnd.shuffle(tours)
        if keep:        # tours the sampling must not drop (stratum chosen by the caller), the rest fills up
            tours.sort(key=lambda t: 0 if keep(t[1]) else 1)
        tours = tours[:max_tours]
    return tours, {"transitions_dumped": n, "graph_states": len(queue), "state_op_pairs": npairs, "tours_planned": planned,
                   "tours": len(tours)}


# ---- replay: re-validate a recorded violation artefact against the current specification -------------------
REPLAY = {  # property -> (trace module, cfg text)
}


def replay(ctx, path, module, cfg):
    """Re-validates the events stored in a replay artefact with TLC and prints where the specification rejects them.
    (The artefact also holds what is needed to re-run the real code by hand: operation sequence, argv, scenario.)"""
    d = json.load(open(path))
    if isinstance(d, dict) and "events" in d:
        evs = d["events"]
    elif isinstance(d, dict) and "event" in d:
        evs = [d["event"]]
    else:
        evs = [d]
    evs = [e for e in evs if isinstance(e, dict)]
    if not evs:
        print("REPLAY: the artefact holds no recorded events (see its text)")
        return 0
    p = os.path.join(ctx.work, "replay.ndjson")
    with open(p, "w") as f:
        for e in evs:
            e.setdefault("tr", 1)
            e["tr"] = 1
            f.write(json.dumps(e, separators=(",", ":")) + "\n")
    ok, rej = ctx.validate_traces(p, module, cfg, shards=1)
    if rej:
        r = rej[0]
        print("REPLAY: rejected by %s at event %d of %d (%s): %s" % (module, r["at"], len(evs), r["why"], r["trace"][r["at"] - 1][:600]))
        return 1
    print("REPLAY: the recorded events are accepted by %s (%d events)" % (module, len(evs)))
    return 0
