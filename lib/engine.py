"""Shared pieces of the engine checks (C01 C02 C04 C07 C20 ...): SearchFlow model runs, scenario dump, trace validation."""
import json, os, random
from core import Infra

FLOW_CFG = """SPECIFICATION Spec
CONSTANTS
  FuzzyCap = "%(fuzzycap)s"
  FallbackGates = %(fbgates)s
  OptionGates = %(optgates)s
  RecoverCap = %(reccap)s
  ThresholdRule = "%(thr)s"
  Host = "linux"
  Limits <- MCLimits
  Thrs <- MCThrs
  Corpora = {%(corpora)s}
INVARIANTS %(invs)s
CHECK_DEADLOCK FALSE
%(extra)s
"""
ALL_INVS = "Bounded AllEligible FallbackOnlyWhenEmpty FallbackSound FallbackComplete"


def flow_cfg(**kw):
    d = dict(fuzzycap="limit", fbgates="TRUE", optgates="TRUE", reccap="TRUE", thr="all",
             corpora='"mix", "empty", "single"', invs=ALL_INVS, extra="")
    d.update(kw)
    return FLOW_CFG % d


TRACE_CFG = """SPECIFICATION TraceSpec
CONSTANTS
  Check = {%s}
POSTCONDITION TraceAccepted
CHECK_DEADLOCK FALSE
"""


def model_and_scenarios(ctx, invs=ALL_INVS, defects=()):
    """Exhaustive SearchFlow run (property-conforming switches), defect-switch runs, scenario dump."""
    for name, kw, expect in defects:
        # the defective designs are refuted on the richest corpus alone (a third of the scenarios)
        ctx.model_check("MCSearchFlow", flow_cfg(invs=invs, corpora='"mix"', **kw), name="SearchFlow-defect-" + name, workers=12,
                        expect_violation=expect)
    # one exhaustive run both checks the invariants under the conforming switches and dumps the scenario list
    dump = os.path.join(ctx.work, "scenarios.ndjson")
    r = ctx.tlc("MCSearchFlow", flow_cfg(invs=invs, extra="CONSTRAINT DumpS"), name="SearchFlow-exh+dump", env={"DUMPFILE": dump},
                workers=1, timeout=1200)
    if r["error"]:
        raise Infra("SearchFlow exhaustive run failed: %s" % r["error"])
    if r["violated"]:
        raise Infra("SearchFlow violates %s under the conforming design switches:\n%s" % (r["violated"], r["out"][-2000:]))
    scen = []
    seen = set()
    for line in open(dump):
        line = line.strip()
        if not line or line in seen:
            continue
        seen.add(line)
        c = json.loads(line)
        if isinstance(c, str):
            c = json.loads(c)
        scen.append(c)
    os.remove(dump)
    return r, scen


def sample(scen, k, rnd, strata):
    """Stratified sample: at least one scenario per value combination of the strata fields, then random fill."""
    rnd.shuffle(scen)
    keep, have = [], set()
    rest = []
    for s in scen:
        key = tuple(json.dumps(s[f]) for f in strata)
        if key not in have:
            have.add(key)
            keep.append(s)
        else:
            rest.append(s)
    return keep + rest[:max(0, k - len(keep))]


def run_cases(ctx, scen, props, name="cases", reps=5, check=None):
    sf = os.path.join(ctx.work, name + ".jsonl")
    with open(sf, "w") as f:
        for s in scen:
            f.write(json.dumps(s) + "\n")
    tr = os.path.join(ctx.work, name + ".ndjson")
    if any(s["entry"] == "cli" for s in scen):
        ctx.wtf()
    info = ctx.run_vh(["engine-scen", "-in", sf, "-out", tr, "-props", ",".join(props), "-reps", reps], timeout=3000)
    chk = ", ".join('"%s"' % p for p in (check or props))
    ok, rej = ctx.validate_traces(tr, "TraceSearch", TRACE_CFG % chk, max_rejects=8, timeout=600)
    return tr, info, ok, rej


def path_stats(trace_file):
    paths = {}
    n = 0
    for line in open(trace_file):
        e = json.loads(line)
        k = "%s/%s" % (e["sc"]["entry"], e["path"])
        paths[k] = paths.get(k, 0) + 1
        n += 1
    return n, paths
