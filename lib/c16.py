"""C16 - search history is a bounded, ordered, faithfully persisted log."""
import json, os, random
from core import Infra, plan_tours

MC_CFG = """SPECIFICATION Spec
CONSTANTS
  DefaultMax = 2
  MaxFromFile = "%(mff)s"
  Qs = {1, 2, 3}
  MaxSteps = %(steps)d
VIEW View
INVARIANTS NeverCrashes
PROPERTIES ActionProps
CHECK_DEADLOCK FALSE
%(extra)s
"""
TRACE_CFG = """SPECIFICATION TraceSpec
CONSTANTS
  DefaultMax = %(defmax)d
  MaxFromFile = "sanitised"
INVARIANTS NeverCrashes
POSTCONDITION TraceAccepted
CHECK_DEADLOCK FALSE
"""


REPLAY = ("TraceHistory", TRACE_CFG % {"defmax": 100})


def signature(events, at):
    ev = json.loads(events[at - 1]) if 0 < at <= len(events) else {}
    prev = json.loads(events[at - 2]) if at >= 2 else {}
    op = ev.get("op")
    parts = ["C16", str(op)]
    if op == "add":
        parts.append("panic" if ev.get("panic") else "state")
        if prev.get("max", 1) < 1:
            parts.append("max<1")
    elif op == "load":
        parts.append("roundtrip")
        if ev.get("bad_utf8"):
            parts.append("invalid-utf8")
        elif prev.get("ents"):
            parts.append("into-nonempty")
    return "|".join(parts)


def report(ctx, rejects, origin):
    for r in rejects:
        evs, at = r["trace"], r["at"]
        ctx.violation(signature(evs, at), "%s trace rejected at event %d (%s): %s" %
                      (origin, at, r["why"], evs[at - 1][:400] if at <= len(evs) else "?"),
                      {"origin": origin, "rejected_at": at, "events": [json.loads(e) for e in evs[:at + 1]]}, name=origin)


def run(ctx):
    q = ctx.quick
    info = ctx.run_vh(["hist-info"])
    defmax = info["default_max"]
    if info["default_max_neg"] != defmax or defmax < 1:
        ctx.violation("C16|default-max", "non-positive constructor maxima are not replaced by one default", info)
    r = ctx.model_check("MCHistory", MC_CFG % dict(mff="sanitised", steps=4 if q else 6, extra=""), name="MCHistory-exh")
    ctx.model_check("MCHistory", MC_CFG % dict(mff="raw", steps=3, extra=""), name="MCHistory-defect-raw-max",
                    expect_violation=("NeverCrashes", "ActionProps"))
    dump = os.path.join(ctx.work, "hist-dump.ndjson")
    r2 = ctx.tlc("MCHistory", MC_CFG % dict(mff="sanitised", steps=3 if q else 4, extra="ACTION_CONSTRAINT DumpT"),
                 name="MCHistory-dump", env={"DUMPFILE": dump})
    if r2["error"] or r2["violated"]:
        raise Infra("dump run failed: %s %s" % (r2["error"], r2["violated"]))

    def op_of(o):
        if o["op"] == "add":
            return ["add", o["q"]]
        if o["op"] == "setfile":
            return ["setfile", o["fcls"]]
        if o["op"] in ("save", "load", "clear"):
            return [o["op"]]
        return None

    def init_of(s):
        if s["steps"] == 0:
            return {"max": s["max"], "file": s["file"], "fmax": s["fmax"], "fents": s["fents"]}
        return None

    tours, st = plan_tours(dump, lambda s: json.dumps(s, sort_keys=True), op_of, init_of,
                           max_tours=6000 if q else 120000, rnd=random.Random(ctx.seed))
    os.remove(dump)
    tf = os.path.join(ctx.work, "hist-tours.jsonl")
    with open(tf, "w") as f:
        for ini, ops in tours:
            f.write(json.dumps({"init": ini, "ops": ops}) + "\n")
    tr1 = os.path.join(ctx.work, "hist-tours.ndjson")
    i1 = ctx.run_vh(["hist-tours", "-in", tf, "-out", tr1])
    cfg = TRACE_CFG % {"defmax": defmax}
    ok1, rej1 = ctx.validate_traces(tr1, "TraceHistory", cfg)
    report(ctx, rej1, "walker")
    tr2 = os.path.join(ctx.work, "hist-random.ndjson")
    i2 = ctx.run_vh(["hist-random", "-out", tr2, "-traces", 300 if q else 3000, "-len", 60 if q else 120], check=False)
    if i2["_rc"] != 0:
        err = i2["_stderr"]
        k = err.find("fatal error")
        frames = [l.strip() for l in err.splitlines() if "internal/history" in l][:4]
        if k >= 0 and frames:    # the runtime aborted inside the history package (cannot be recovered from): an observation
            ctx.violation("C16|fatal|%s" % ("load" if any(".Load" in f for f in frames) else "other"),
                          "the Go runtime aborted the process inside the history package: %s; frames: %s" % (err[k:k + 120].splitlines()[0], frames),
                          err[k:k + 3000], name="fatal")
            open(tr2, "a").close()
        else:
            raise Infra("harness hist-random failed (exit %d):\n%s" % (i2["_rc"], err[-3000:]))
    ok2, rej2 = ctx.validate_traces(tr2, "TraceHistory", cfg) if os.path.getsize(tr2) > 0 else (0, [])
    # (D) the search command itself: whole sessions of the real binary in one home directory (searches that find something,
    # nothing, are rejected or repeated, interleaved with the history views), validated against the same specification
    ctx.wtf()
    tr3 = os.path.join(ctx.work, "hist-sessions.ndjson")
    i3 = ctx.run_vh(["session-run", "-out", tr3, "-sessions", 6 if q else 80, "-len", 14 if q else 40], timeout=3000)
    import x02
    ok3, rej3 = ctx.validate_traces(tr3, "TraceSession", x02.TRACE_CFG, max_rejects=4)
    for x in rej3:
        evs, at = x["trace"], x["at"]
        ev = json.loads(evs[at - 1])
        ctx.violation("C16|cli-session|%s" % ev.get("op"), "session of the real binary rejected at command %d (%s): %s" % (at, x["why"], evs[at - 1][:400]),
                      {"rejected_at": at, "events": [json.loads(e) for e in evs[:at]]}, name="session")
    ok2 += ok3
    ctx.cov["cli_sessions"] = i3.get("sessions")
    report(ctx, rej2, "random")
    samples = [{"init": tours[i][0], "tour": tours[i][1]} for i in range(0, len(tours), max(1, len(tours) // 3))][:3]
    cov = {"states": r["distinct"], "transitions": r["generated"], "traces_validated_against_impl": ok1 + ok2,
           "samples": samples, "walker": st, "walker_events": i1.get("events"), "random_traces": i2.get("traces"),
           "random_events": i2.get("events"), "real_default_max": defmax, "exhaustive": True,
           "model_bounds": "queries 3, constructor max {-1,0,1,2}, file {missing,empty,garbage,valid x max {-3,0,1,2,5} x 4 entry lists}, histories <= %d steps" % (4 if q else 6),
           "rejected_traces": len(rej1) + len(rej2)}
    return "model_checking", cov, [
        "entries are compared by identity of all fields (query bytes, UnixNano stamp, result count, context, duration)",
        "foreign valid files are written by the harness' own JSON encoder with chronological stamps",
        "the bound check Len <= max is required after Add only (generous: a foreign file may hold more than its max)",
        "pattern search (GetEntriesByPattern) is not modelled",
        "trusted: TLC, CommunityModules Json, cmd/vh/history.go"]
