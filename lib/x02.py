"""X02 (specification growth, not a listed property) - whole CLI sessions against History.tla: searches interleaved with
`wtf history`, --top, --stats, --clear and pattern look-ups, through the real binary in one home directory."""
import json, os
from core import Infra, VERIF

TRACE_CFG = """SPECIFICATION TraceSpec
CONSTANTS
  DefaultMax = 100
  MaxFromFile = "sanitised"
INVARIANTS NeverCrashes
POSTCONDITION TraceAccepted
CHECK_DEADLOCK FALSE
"""


def run(ctx):
    q = ctx.quick
    ctx.wtf()
    tr = os.path.join(ctx.work, "session.ndjson")
    i = ctx.run_vh(["session-run", "-out", tr, "-sessions", 16 if q else 200, "-len", 25 if q else 60], timeout=3000)
    ok, rej = ctx.validate_traces(tr, "TraceSession", TRACE_CFG, max_rejects=6)
    kinds = {}
    for x in rej:
        evs, at = x["trace"], x["at"]
        ev = json.loads(evs[at - 1])
        k = "crash in %s" % ev["op"] if ev.get("crash") else "history %s output / file differs from the specification's view" % ev["op"]
        kinds.setdefault(k, []).append([json.loads(e) for e in evs[:at]])
    for k, v in kinds.items():
        p = ctx.save_replay("session", {"finding": k, "events": v[0]})
        print("EXTENSION-FINDING: component=cli session: %s (%d sessions, e.g. %s)" % (k, len(v), p))
    ops = {}
    for l in open(tr):
        o = json.loads(l)["op"]
        ops[o] = ops.get(o, 0) + 1
    cov = {"sessions": i.get("sessions"), "commands": i.get("events"), "by_command": ops, "traces_validated_against_impl": ok,
           "findings": {k: len(v) for k, v in kinds.items()}, "samples": [json.loads(l) for l in open(tr).readlines()[1:4]]}
    os.makedirs(os.path.join(VERIF, "evidence-extras"), exist_ok=True)
    json.dump({"id": "X02", "component": "internal/cli (search + history sub-command), internal/history", "tier": ctx.tier, "seed": ctx.seed, "coverage": cov},
              open(os.path.join(VERIF, "evidence-extras", "X02.json"), "w"), indent=1)
    print("X02 done: %d sessions, %d rejected" % (ok + len(rej), len(rej)))
    raise SystemExit(0)
