"""C18 - metrics are keyed by identity and account for every event."""
import json, os
from core import Infra

MC_CFG = """SPECIFICATION Spec
CONSTANTS
  SeriesKey = "%(key)s"
  Buckets <- MCBuckets
  MaxSteps = %(steps)d
INVARIANTS OneSeriesPerIdentity SidsUnique HistConsistent PercentileMonotone
CHECK_DEADLOCK FALSE
"""
TRACE_CFG = """SPECIFICATION TraceSpec
CONSTANTS
  SeriesKey = "canonical"
  Buckets <- RealBuckets
INVARIANTS OneSeriesPerIdentity SidsUnique
POSTCONDITION TraceAccepted
CHECK_DEADLOCK FALSE
"""


REPLAY = ("TraceMetrics", TRACE_CFG)


def signature(events, at):
    ev = json.loads(events[at - 1]) if 0 < at <= len(events) else {}
    op = ev.get("op")
    if op == "get":
        return "C18|get|kind=%s|tags=%s" % (ev.get("kind"), "0" if not ev.get("tags") else ("1" if len(ev["tags"]) == 1 else "n"))
    return "C18|%s" % op


def run(ctx):
    q = ctx.quick
    r = ctx.model_check("MCMetrics", MC_CFG % dict(key="canonical", steps=5 if q else 6), name="MCMetrics-exh")
    ctx.model_check("MCMetrics", MC_CFG % dict(key="maporder", steps=3), name="MCMetrics-defect-maporder",
                    expect_violation="OneSeriesPerIdentity")
    tr = os.path.join(ctx.work, "metrics.ndjson")
    i = ctx.run_vh(["metrics-random", "-out", tr, "-traces", 90 if q else 900, "-len", 60 if q else 120])
    ok, rej = ctx.validate_traces(tr, "TraceMetrics", TRACE_CFG)
    for x in rej:
        evs, at = x["trace"], x["at"]
        ctx.violation(signature(evs, at), "recorded trace rejected at event %d (%s): %s" % (at, x["why"], evs[at - 1][:400]),
                      {"rejected_at": at, "events": [json.loads(e) for e in evs[max(0, at - 30):at + 1]]}, name="random")
    # race-detector run of the concurrent part (thorough only: the race build is slow)
    if not q:
        tr2 = os.path.join(ctx.work, "metrics-race.ndjson")
        i2 = ctx.run_vh(["metrics-random", "-out", tr2, "-traces", 60, "-len", 30], race=True, check=False)
        if i2["_rc"] != 0:
            if "DATA RACE" in i2["_stderr"]:
                ctx.violation("C18|race", "race detector report in the metrics package", i2["_stderr"][-4000:], name="race")
            else:
                raise Infra("race run failed: %s" % i2["_stderr"][-2000:])
    sample = [json.loads(l) for l in open(tr).readlines()[1:4]]
    cov = {"states": r["distinct"], "transitions": r["generated"], "traces_validated_against_impl": ok,
           "samples": sample, "events": i.get("events"), "exhaustive": True,
           "model_bounds": "identities: 2 kinds x tag sets of 0..3 tags, all permutations of the iteration order; buckets <<1,3>>, observations {0,1,2,4}; <= %d steps" % (5 if q else 6),
           "walker": "none - binding A not built for this component; the recorder replays the model's operations on larger domains"}
    return "model_checking", cov, [
        "series identity observed as pointer identity of the returned metric",
        "each get is repeated up to 24 times with freshly built tag maps, so a second iteration order is seen with overwhelming probability",
        "observations are integer valued so that sums are exact; percentiles only checked for monotonicity in p (what the property states)",
        "timer histograms are not exported by GetAllMetrics, so per-search duration counts are not observable through the report",
        "names/tags containing the registry's delimiters ':' '=' are not generated: two different identities whose concatenated keys coincide (name 'a:b=c' vs name 'a' + tag b=c) share a series today; that is outside the statement and not checked"]
