"""C10 - no input crashes the engine: any database file, any query, any options."""
import json, os, random
from core import Infra

MC_CFG = "SPECIFICATION Spec\nINVARIANTS Decides\nCHECK_DEADLOCK FALSE\n%s\n"
TRACE_CFG = "SPECIFICATION TraceSpec\nPOSTCONDITION TraceAccepted\nCHECK_DEADLOCK FALSE\n"


REPLAY = ("TraceTotality", TRACE_CFG)


def signature(ev):
    if ev["op"] == "loadp":
        return "C10|load-with-notebook|shape=%s|%s" % (ev["shape"], ev["outcome"])
    if ev["op"] == "load":
        return "C10|load|shape=%s|text=%s|%s" % (ev["shape"], ev["text"] if ev["shape"].startswith("valid") or ev["shape"] == "hugelist" else "-", ev["outcome"])
    note = ev.get("note", "")
    where = "fuzzy" if "fuzzy" in note else "index" if "index out of range" in note else "other"
    return "C10|call|%s|text=%s|%s|%s" % (ev["outcome"], ev["text"], "fuzzy-matcher" if "sahilm" in note or where == "fuzzy" else where, ev["entry"] if ev["outcome"] != "panic" else "any")


def run(ctx):
    q = ctx.quick
    rnd = random.Random(ctx.seed)
    r = ctx.model_check("MCTotality", MC_CFG % "", name="MCTotality-exh", workers=4)
    dump = os.path.join(ctx.work, "total-scen.ndjson")
    r2 = ctx.tlc("MCTotality", MC_CFG % "CONSTRAINT DumpS", name="MCTotality-dump", env={"DUMPFILE": dump}, timeout=900)
    if r2["error"] or r2["violated"]:
        raise Infra("dump failed: %s %s" % (r2["error"], r2["violated"]))
    lines = list(dict.fromkeys(l.strip() for l in open(dump) if l.strip()))
    total = len(lines)
    if q:
        # every (shape, text) pair is loaded; a pairwise-style sample of the call features
        scen = [json.loads(json.loads(l)) if l.startswith('"') else json.loads(l) for l in lines]
        rnd.shuffle(scen)
        keep, have = [], set()
        for s in scen:
            ks = [("st", s["shape"], s["text"]), ("qe", s["query"], s["entry"]), ("oe", s["opt"], s["entry"]), ("tq", s["text"], s["query"], s["entry"])]
            if any(k not in have for k in ks):
                have.update(ks)
                keep.append(s)
        lines = [json.dumps(s) for s in keep + scen[:2000]]
    with open(dump, "w") as f:
        f.write("\n".join(lines) + "\n")
    tr = os.path.join(ctx.work, "total.ndjson")
    i = ctx.run_vh(["total-run", "-in", dump, "-out", tr], timeout=3000)
    ok, rej = ctx.validate_traces(tr, "TraceTotality", TRACE_CFG, max_rejects=10)
    for x in rej:
        ev = json.loads(x["trace"][x["at"] - 1])
        ctx.violation(signature(ev), "%s" % json.dumps({k: v for k, v in ev.items() if v not in ("", 0, None)})[:500], ev, name=ev["op"])
    slow = sorted((json.loads(l) for l in open(tr)), key=lambda e: -e["ms"])[:3]
    cov = {"states": r["distinct"], "transitions": r["generated"], "traces_validated_against_impl": ok,
           "scenarios_total_in_model": total, "scenarios_run": i.get("events"), "file_loads": i.get("loads"), "exhaustive": not q,
           "slowest_calls_ms": [[e["ms"], e.get("entry", "load"), e["shape"], e.get("query", "")] for e in slow],
           "samples": [json.loads(l) for l in open(tr).readlines()[:3]]}
    return "model_checking", cov, [
        "the specification enumerates classes (file shape x text feature x query x option x entry point), not bytes; each class has one concrete representative",
        "texts YAML cannot carry (invalid UTF-8) and files that do not load are searched on a database built directly from structs",
        "every call runs under a 20 s deadline with panic recovery, one child process per (file shape, text class) group with a 48 MB stack limit; a fatal error that kills the child (stack overflow, out of memory) is attributed to the call it was working on",
        "loader classification: missing -> not found; scalar / map / list of scalars / damaged / binary -> parse error; well-formed lists load; wrong-typed fields, deep nesting and alias bombs may load or be a parse error"]
