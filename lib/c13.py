"""C13 - project context only re-ranks, in favour of commands that mention it."""
import json, os, random
import engine
from core import Infra
from c02 import shipped_scenarios

CTX_MC = """SPECIFICATION Spec
INVARIANTS Satisfiable
CHECK_DEADLOCK FALSE
%s
"""
CTX_TRACE = "SPECIFICATION TraceSpec\nPOSTCONDITION TraceAccepted\nCHECK_DEADLOCK FALSE\n"


REPLAY = ("TraceSearch", engine.TRACE_CFG % '"C13"')


def signature(ev):
    docs = lambda R: set(m[0] for m in R)
    if docs(ev["main"]) != docs(ev["nob"]):
        return "C13|candidates|nlp=%d" % int(ev["sc"]["nlp"])
    for d, contains, cmp in ev["bcmp"]:
        if contains and cmp not in (0, 1):
            return "C13|lowered|nlp=%d" % int(ev["sc"]["nlp"])
        if not contains and cmp != 0:
            return "C13|not-local|nlp=%d" % int(ev["sc"]["nlp"])
    return "C13|other"


def run(ctx):
    q = ctx.quick
    rnd = random.Random(ctx.seed)
    # --- engine half: paired searches with and without boosts, at a limit >= database size
    r, scen = engine.model_and_scenarios(ctx)
    scen = [dict(s) for s in scen if s["boost"] and s["entry"] in ("universal", "cached", "monitored") and s["query"] in ("lex", "typo")
            and s["corpus"] in ("mix", "single")]
    scen = engine.sample(scen, 500 if q else 6000, rnd, ["entry", "query", "nlp", "fuzzy", "ponly", "allplat", "corpus"])
    for i, s in enumerate(scen):
        s["limit"] = 200
        s["boostvar"] = i % 4
    extra = shipped_scenarios(rnd, 60 if q else 1500)
    for i, s in enumerate(extra):
        s.update(entry="universal", boost=True, boostvar=i % 7, limit=7000)
    # boosted words that the NLP analysis itself emphasises (actions / targets)
    for raw, corpus in [("delete item", "mix"), ("install item", "mix"), ("run item question", "mix"), ("find item", "mix"), ("list item", "mix"),
                        ("show item question", "mix"), ("install package", "shipped"), ("npm install express", "shipped"), ("run tests", "shipped"),
                        ("build docker image", "shipped"), ("kubectl get service", "shipped"), ("list running process", "shipped"),
                        ("delete a directory", "shipped"), ("copy file to remote service", "shipped")]:
        for nlp in (True, False):
            for bv in (4, 5, 6):
                extra.append(dict(entry="universal", limit=7000, nlp=nlp, fuzzy=False, thr=0, ponly=False, pboost=False, allplat=True, plats=[],
                                  nocross=False, boost=True, boostvar=bv, query="raw", raw=raw, corpus=corpus))
    # a boosted word that no command contains, next to ordinary words: nothing may change at all
    for raw, corpus in [("absentword widget", "mix"), ("zzabsent frobnicate widget", "mix"), ("widget absentword", "mix"), ("qqnowhere item question", "mix"),
                        ("absentword zzabsent qqnowhere number", "mix"), ("zzabsent list files", "shipped"), ("qqnowhere docker image zzabsent build", "shipped"),
                        ("absentword item", "mix")]:
        for nlp in (True, False):
            for bv in (7, 0):
                for entry in ("universal", "cached"):
                    extra.append(dict(entry=entry, limit=7000, nlp=nlp, fuzzy=False, thr=0, ponly=False, pboost=False, allplat=True, plats=[],
                                      nocross=False, boost=True, boostvar=bv, query="raw", raw=raw, corpus=corpus))
    # queries long enough for the term cap to bite, with a common (low-IDF) boosted word after the first four
    for raw, cap in [("delete remove find search create make show display copy number frobnicate widget", 0),
                     ("delete remove find search number frobnicate widget", 5), ("copy move install run number widget frobnicate", 5),
                     ("delete remove find search create make show display copy item number frobnicate", 0),
                     ("delete remove find search frobnicate create make show display copy move install", 0),
                     ("delete remove find search widget create make show display copy move install run", 0),
                     ("delete remove find search create make frobnicate show display copy move install run list view", 0),
                     ("delete remove find search frobnicate create make", 5), ("copy move install run widget list view", 5),
                     ("delete remove find search frobnicate create", 4)]:
        for nlp in (False, True):
            for bv in (0, 1, 2, 3):
                for entry in ("universal", "cached"):
                    extra.append(dict(entry=entry, limit=7000, nlp=nlp, fuzzy=False, thr=0, ponly=False, pboost=False, allplat=True, plats=[],
                                      nocross=False, boost=True, boostvar=bv, query="raw", raw=raw, corpus="mix", cap=cap))
    # a boosted word that nearly every command contains (an IDF floor must not look at the boost)
    for corpus in ("tie", "bigtie", "single"):
        for raw in ("frobnicate widget", "frobnicate", "widget zqtie", "frobnicate alpha"):
            for nlp in (False, True):
                for bv in (0, 2, 3):     # (factors below 1 are demotions, not boosts: C03 checks their arithmetic)
                    extra.append(dict(entry="universal", limit=7000, nlp=nlp, fuzzy=False, thr=0, ponly=False, pboost=False, allplat=True, plats=[],
                                      nocross=False, boost=True, boostvar=bv, query="raw", raw=raw, corpus=corpus))
    # a boosted word typed more than once (the factor multiplies every occurrence's contribution, it does not replace the count)
    for raw in ("frobnicate frobnicate widget", "widget widget widget frobnicate", "frobnicate widget frobnicate widget frobnicate", "widget widget",
                "frobnicate frobnicate frobnicate frobnicate number"):
        for nlp in (False, True):
            for bv in (0, 1, 2, 3):
                for corpus in ("mix", "tie"):
                    extra.append(dict(entry="universal", limit=7000, nlp=nlp, fuzzy=False, thr=0, ponly=False, pboost=False, allplat=True, plats=[],
                                      nocross=False, boost=True, boostvar=bv, query="raw", raw=raw, corpus=corpus))
    # boosts on real words of the shipped database
    tr, info, ok, rej = engine.run_cases(ctx, scen + extra, ["C13"])
    for x in rej:
        ev = json.loads(x["trace"][x["at"] - 1])
        ctx.violation(signature(ev), "query %r, options %s: with boosts %s / without %s; per-document <<doc, contains boosted word, cmp>> %s" %
                      (ev["q"], {k: ev["sc"][k] for k in ("nlp", "fuzzy", "ponly", "allplat")}, ev["main"][:5], ev["nob"][:5],
                       [b for b in ev["bcmp"] if (b[1] and b[2] not in (0, 1)) or (not b[1] and b[2] != 0)][:6]), ev, name="case")
    n, paths = engine.path_stats(tr)
    # --- context detection half
    r3 = ctx.model_check("MCContext", CTX_MC % "", name="MCContext-exh")
    dump = os.path.join(ctx.work, "ctx-scen.ndjson")
    r4 = ctx.tlc("MCContext", CTX_MC % "CONSTRAINT DumpS", name="MCContext-dump", env={"DUMPFILE": dump})
    if r4["error"] or r4["violated"]:
        raise Infra("context scenario dump failed: %s %s" % (r4["error"], r4["violated"]))
    lines = list(dict.fromkeys(l.strip() for l in open(dump) if l.strip()))
    total_dirs = len(lines)
    if q:
        rnd.shuffle(lines)
        lines = lines[:1500]
    with open(dump, "w") as f:
        f.write("\n".join(lines) + "\n")
    tr2 = os.path.join(ctx.work, "ctx.ndjson")
    ctx.wtf()
    i2 = ctx.run_vh(["context-run", "-in", dump, "-out", tr2])
    ok2, rej2 = ctx.validate_traces(tr2, "TraceContext", CTX_TRACE, max_rejects=6)
    for x in rej2:
        ev = json.loads(x["trace"][x["at"] - 1])
        if ev.get("op") == "ctxbig":
            ctx.violation("C13|context|crowded-directory", "markers %s among %d unrelated files give types %r; alone they give %r" %
                          (ev["markers"], ev["fillers"], ev["types"], ev["alone"]), ev, name="ctx")
            continue
        if ev.get("op") == "ctxcli":
            ctx.violation("C13|context|command-line-directory", "wtf run in the %s directory with PWD=%s reports context %r; the directory's context is %r" %
                          (ev["dir"], ev["pwd"], ev["got"], ev["want"]), ev, name="ctx")
            continue
        if ev.get("op") == "ctxlit":
            ctx.violation("C13|context|marker-not-recognised", "a directory holding only %r is reported as generic although the analyzer's detectors name "
                          "that file" % ev["name"], ev, name="ctx")
            continue
        kind = "panic" if ev["panic"] else "nondeterministic" if (ev["types"] != ev["types2"] or ev["types"] != ev["types3"] or ev["boostid"] != ev["boostid2"]
                                                                  or ev["boostid"] != ev["boostid3"]) else "boosts" if any(b < 1000 for b in ev["boosts"]) else "types"
        ctx.violation("C13|context|%s" % kind, "directory %s (package.json %s, Makefile %s): types %s / %s / %s, boosts %s" %
                      (ev["files"], ev["pkg"], ev["mk"], ev["types"], ev["types2"], ev["types3"], ev["boosts"][:12]), ev, name="ctx")
    cov = {"states": r["distinct"] + r3["distinct"], "transitions": r["generated"] + r3["generated"], "traces_validated_against_impl": ok + ok2,
           "paired_searches": n, "paths": paths, "directories_in_model": total_dirs, "directories_run": i2.get("directories"),
           "samples": [json.loads(l)["sc"] for l in open(tr).readlines()[:2]] + [json.loads(open(tr2).readline())]}
    return "model_checking", cov, [
        "paired searches are compared at a limit >= database size; scores compared as raw float comparisons per document",
        "'contains a boosted word' = the word is an indexed token of the command (reference tokeniser written from the documented rule)",
        "context detection: documented marker files must be recognised, made-up names must not; nothing else about the marker table is assumed",
        "directories are populated in two different creation orders and analysed twice"]
