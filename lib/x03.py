"""X03 (specification growth, not a listed property) - composition: the result-cache layer as a client of LRU.tla.
Histories of the real caching / monitoring layer are validated against TraceCacheLRU.tla: which requests hit, what a
hit returns and the statistics the layer reports are those of the LRU specification driven by one key per request
identity (capacity, recency, expiry, the monitored wrapper's extra probe)."""
import json, os
from concurrent.futures import ThreadPoolExecutor
from core import Infra, VERIF

CFG = """SPECIFICATION TraceSpec
CONSTANTS
  DefaultCap = 100
  TouchOnGet = TRUE
  TouchOnUpdate = TRUE
  ExpireBy = "created"
INVARIANTS NotDone Bounded DistinctKeys
CONSTRAINT Track
CHECK_DEADLOCK FALSE
"""
DFS = "-Dtlc2.tool.queue.IStateQueue=StateDeque"


def split(path):
    traces, cur = [], None
    for line in open(path):
        line = line.rstrip("\n")
        if not line:
            continue
        if '"op":"reset"' in line:
            cur = []
            traces.append(cur)
        cur.append(line)
    return traces


def accepted(ctx, traces, tag):
    p = os.path.join(ctx.work, "clru-%s.ndjson" % tag)
    with open(p, "w") as f:
        for t in traces:
            f.write("\n".join(t) + "\n")
    r = ctx.tlc("TraceCacheLRU", CFG, name="clru-" + tag, env={"TRACEFILE": p}, workers=1, timeout=600, jvm=DFS)
    ctx.cov["x03_states"] = ctx.cov.get("x03_states", 0) + r["distinct"]
    if r["violated"] == "NotDone":
        return True, None
    if r["violated"]:
        return False, "invariant %s violated" % r["violated"]
    if r["error"]:
        raise Infra("X03 %s: %s\n%s" % (tag, r["error"], r["out"][-1500:]))
    return False, "no behaviour of the specification consumes the history"


def find_bad(ctx, traces, tag):
    ok, why = accepted(ctx, traces, tag)
    if ok:
        return []
    if len(traces) == 1:
        return [(traces[0], why)]
    mid = len(traces) // 2
    return find_bad(ctx, traces[:mid], tag + "a") + find_bad(ctx, traces[mid:], tag + "b")


def last_ok(ctx, t):
    """longest accepted prefix of one rejected history (binary search over prefixes)"""
    lo, hi = 1, len(t)
    while lo < hi:
        mid = (lo + hi + 1) // 2
        ok, _ = accepted(ctx, [t[:mid]], "pfx")
        if ok:
            lo = mid
        else:
            hi = mid - 1
    return lo


def run(ctx):
    q = ctx.quick
    tr = os.path.join(ctx.work, "clru.ndjson")
    i = ctx.run_vh(["cache-random", "-out", tr, "-traces", 60 if q else 600, "-len", 80 if q else 200], timeout=1500)
    tr2 = os.path.join(ctx.work, "clru-pool.ndjson")
    i2 = ctx.run_vh(["cache-random", "-out", tr2, "-traces", 60 if q else 600, "-len", 80 if q else 200, "-pool", 5], timeout=1500)
    # the typed front with InvalidatePattern (keys are digests: the specification chooses which entries a fragment matched)
    tr3 = os.path.join(ctx.work, "clru-pat.ndjson")
    i3 = ctx.run_vh(["lru-searchcache", "-out", tr3, "-invpat", "-traces", 120 if q else 1200, "-len", 60 if q else 120], timeout=1500)
    traces = split(tr) + split(tr2) + split(tr3)
    i["events"] = i.get("events", 0) + i2.get("events", 0) + i3.get("events", 0)
    n = 8
    bad = []
    with ThreadPoolExecutor(max_workers=n) as ex:
        for b in ex.map(lambda k: find_bad(ctx, traces[k::n], "s%d" % k), range(n)):
            bad += b
    kinds = {}
    for t, why in bad[:6]:
        at = last_ok(ctx, t)
        ev = json.loads(t[at]) if at < len(t) else {}
        k = "%s at a %s event (%s)" % (why, ev.get("op"), "monitored" if ev.get("mon") else "plain")
        kinds.setdefault(k, []).append({"rejected_at": at + 1, "events": [json.loads(e) for e in t[:at + 1]]})
    for k, v in kinds.items():
        p = ctx.save_replay("cachelru", {"finding": k, **v[0]})
        print("EXTENSION-FINDING: component=cache layer over LRU: %s (%d histories, e.g. %s)" % (k, len(v), p))
    # binding self-test: a corrupted statistic must be rejected
    t0 = None
    for t in traces:
        t0 = [json.loads(e) for e in t]
        hit = [e for e in t0 if e["op"] == "search" and e["hit"]]
        if hit:
            hit[0]["sh"] += 1
            break
    else:
        raise Infra("X03: no history with a cache hit was recorded")
    ok, _ = accepted(ctx, [[json.dumps(e, separators=(",", ":")) for e in t0]], "selftest")
    if ok:
        raise Infra("X03 binding self-test failed: a history with a corrupted hit counter was accepted")
    ops = {}
    for t in traces:
        for e in t:
            o = json.loads(e)
            kk = o["op"] + ("/hit" if o.get("hit") else "")
            ops[kk] = ops.get(kk, 0) + 1
    cov = {"histories": len(traces), "events": i.get("events"), "by_event": ops, "traces_validated_against_impl": len(traces) - len(bad),
           "tlc_states": ctx.cov.get("x03_states"), "findings": {k: len(v) for k, v in kinds.items()},
           "binding_selftest": "history with one hit counter raised by 1 rejected", "samples": [json.loads(e) for e in traces[0][:4]]}
    os.makedirs(os.path.join(VERIF, "evidence-extras"), exist_ok=True)
    json.dump({"id": "X03", "component": "internal/database (cached, monitored) over internal/cache", "tier": ctx.tier, "seed": ctx.seed, "coverage": cov},
              open(os.path.join(VERIF, "evidence-extras", "X03.json"), "w"), indent=1)
    print("X03 done: %d histories, %d rejected" % (len(traces), len(bad)))
    raise SystemExit(0)
