"""C03 - the inverted index answers exactly like an exhaustive scan of the commands; never stale."""
import json, os
import engine
from core import Infra

MC_CFG = """SPECIFICATION Spec
CONSTANTS
  RerankerRebuildOn <- %s
  Lists <- MCLists
  MaxSteps = %d
INVARIANTS IndexFresh RerankerFresh
CHECK_DEADLOCK FALSE
"""


REPLAY = ("TraceSearch", engine.TRACE_CFG % '"C03"')


def signature(ev):
    if ev["panic"]:
        return "C03|panic|%s" % ev["op"]
    if ev["op"] == "hist":
        last = [h for h in ev["hist"] if h != "search"][-1]
        return "C03|stale|after=%s|nlp=%d" % (last, int(ev["nlp"]))
    S = set
    if ev["ntok"] <= 10 and S(ev["res"]) != S(ev["ref"]):
        return "C03|candidates|%s" % ("missing" if S(ev["ref"]) - S(ev["res"]) else "extra")
    if not S(ev["first4"]) <= S(ev["res"]):
        return "C03|first-four"
    if ev["serr"]:
        return "C03|score|boost=%d" % int(ev["boost"])
    return "C03|reference-scan-disagrees-with-spec"


def run(ctx):
    q = ctx.quick
    r = ctx.model_check("MCIndex", MC_CFG % ("AllEvents", 4 if q else 5), name="MCIndex-exh", workers=4)
    ctx.model_check("MCIndex", MC_CFG % ("OnlyLoads", 3), name="MCIndex-defect-stale-reranker", workers=4, expect_violation="RerankerFresh")
    tr = os.path.join(ctx.work, "index.ndjson")
    i = ctx.run_vh(["engine-index", "-out", tr, "-scans", 600 if q else 10000, "-hists", 120 if q else 1500], timeout=3000)
    ok, rej = ctx.validate_traces(tr, "TraceSearch", engine.TRACE_CFG % '"C03"', max_rejects=8)
    for x in rej:
        ev = json.loads(x["trace"][x["at"] - 1])
        ctx.violation(signature(ev), "%s: query %r %s" % (ev["op"], ev["q"], json.dumps({k: ev[k] for k in ("res", "ref", "first4", "serr", "hist", "nlp", "ans", "fresh", "note") if k in ev and ev[k] not in ([], "", 0)})[:400]),
                      ev, name=ev["op"])
    kinds = {}
    for l in open(tr):
        e = json.loads(l)
        k = e["op"] + ("/" + e["corpus"] if e["op"] == "scan" else "/" + "+".join(e["hist"]))
        kinds[k] = kinds.get(k, 0) + 1
    cov = {"states": r["distinct"], "transitions": r["generated"], "traces_validated_against_impl": ok, "observations": dict(sorted(kinds.items())[:40]),
           "samples": [json.loads(l)["q"] for l in open(tr).readlines()[:3]], "exhaustive": True,
           "model_bounds": "histories <= %d steps over load / merge / replace / grow / search on 4 command lists" % (4 if q else 5)}
    return "model_checking", cov, [
        "the reference scan uses a tokeniser written from the documented rule (exported NormalizeText and StopWords, lower-case, split on non-alphanumerics, drop tokens < 2 bytes); for small databases TLC recomputes the scan from token ids and must agree with it",
        "scores: BM25F recomputed from the texts by a Go kernel with the parameters read through the VerifBM25FParams hook, relative tolerance 1e-9; floating point is outside the specification",
        "scan equivalence is checked with all platforms enabled (eligibility itself is C04's subject), NLP off, limit above the database size",
        "staleness oracle: a database freshly loaded from the same entries"]
