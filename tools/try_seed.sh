#!/bin/bash
# try_seed.sh <patch.diff> <property id> [tier]  - applies a seeded change to /repo, runs the check, undoes it.
set -u
P=$1; ID=$2; TIER=${3:-quick}
cd /repo && git apply "$P" || { echo "TRY: patch does not apply"; exit 2; }
cd /verif && ./check "$ID" --tier "$TIER" > /tmp/try_seed_$ID.log 2>&1; RC=$?
git -C /repo checkout -- .
grep -E "^(VIOLATION|KNOWN-FINDING|INFRA|C[0-9]+ )" /tmp/try_seed_$ID.log | cut -c1-160 | head -8
echo "TRY: exit $RC"
