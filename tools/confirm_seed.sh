#!/bin/bash
# confirm_seed.sh <worktree> <seed dir> <package dir for the demo, relative>  - confirms a seeded change:
# builds, passes the baseline suite, demo fails with the change and passes without it.
set -u
WT=$1; SD=$2; PKG=$3
export GOFLAGS=-mod=mod GOPROXY=off
cd "$WT" || exit 2
git checkout -q -- . ; git clean -fdq
git apply "$SD/patch.diff" || { echo "CONFIRM: patch does not apply"; exit 1; }
go build ./... || { echo "CONFIRM: does not build"; git checkout -q -- .; exit 1; }
if ! go test -vet=off -count=1 ./... >/tmp/confirm_base.log 2>&1; then echo "CONFIRM: baseline suite fails with the change"; tail -5 /tmp/confirm_base.log; git checkout -q -- .; exit 1; fi
DEMO=$(ls "$SD"/*_test.go | head -1)
RUN=$(grep -o 'func Test[A-Za-z0-9_]*' "$DEMO" | sed 's/func //' | paste -sd'|')
RACE=""; grep -q '"demo_needs_race_flag": *true' "$SD/meta.json" 2>/dev/null && RACE="-race"
cp "$DEMO" "$PKG/zz_seed_demo_test.go"
if go test $RACE -vet=off -count=1 -run "^($RUN)\$" "./$PKG" >/tmp/confirm_demo1.log 2>&1; then echo "CONFIRM: demo does NOT fail with the change"; rm -f "$PKG/zz_seed_demo_test.go"; git checkout -q -- .; exit 1; fi
git checkout -q -- .
if ! go test $RACE -vet=off -count=1 -run "^($RUN)\$" "./$PKG" >/tmp/confirm_demo2.log 2>&1; then echo "CONFIRM: demo fails on the unchanged tree"; tail -5 /tmp/confirm_demo2.log; rm -f "$PKG/zz_seed_demo_test.go"; exit 1; fi
rm -f "$PKG/zz_seed_demo_test.go"
echo "CONFIRM: ok"
