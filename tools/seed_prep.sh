#!/bin/bash
# seed_prep.sh <id> : scratch worktree + property text for a seeding sub-agent
ID=$1
mkdir -p /tmp/seed/$ID-out
git -C /repo worktree add -q --detach /tmp/seed/$ID HEAD
python3 - "$ID" <<'P'
import json,sys
for l in open('/verif/properties.jsonl'):
    p=json.loads(l)
    if p['id']==sys.argv[1]:
        open('/tmp/seed/%s-out/property.txt'%p['id'],'w').write("Property %s: %s\n\n%s\n\nQuantifier: %s\n\nFiles: %s\n"%(p['id'],p['title'],p['statement'],p['quantifier']['text'],", ".join(p['anchors']['files'])))
P
cat /tmp/seed/$ID-out/property.txt
