#!/usr/bin/env python3
"""regress.py seeds|fixes [-j N] [--tier quick] [ids...]
Self-validation of the machinery, without touching /repo: every kept seeded change (seeded/<id>/patch.diff) resp. the
revert of every recorded "fix:" commit is applied to a scratch worktree of /repo's HEAD, the registered check of the
property is run against that copy (VERIF_REPO) and must report a violation (exit 1).  Evidence and replay artefacts of
these runs go to a scratch directory (VERIF_OUT).  Results: tools/regress_<mode>.json + a table on stdout."""
import json, os, subprocess, sys, glob, shutil
from concurrent.futures import ThreadPoolExecutor
import queue

VERIF = os.path.dirname(os.path.dirname(os.path.abspath(__file__)))
ROOT = "/tmp/regress"
args = sys.argv[1:]
mode = args.pop(0)
jobs, tier = 4, "quick"
while args and args[0].startswith("-"):
    o = args.pop(0)
    if o == "-j":
        jobs = int(args.pop(0))
    elif o == "--tier":
        tier = args.pop(0)
want = set(args)


def sh(cmd, **kw):
    return subprocess.run(cmd, shell=True, capture_output=True, text=True, **kw)


items = []
if mode == "seeds":
    for d in sorted(glob.glob(os.path.join(VERIF, "seeded", "C*-*"))):
        name = os.path.basename(d)
        prop = name.split("-")[0]
        if want and name not in want and prop not in want:
            continue
        items.append((name, prop, ("apply", os.path.join(d, "patch.diff"))))
else:
    k = json.load(open(os.path.join(VERIF, "known_findings.json")))
    for f in k["findings"]:
        if f.get("status") == "fixed" and (not want or f["property"] in want):
            items.append((f["property"] + "@" + f["commit"][:7], f["property"], ("revert", f["commit"])))

shutil.rmtree(ROOT, ignore_errors=True)
os.makedirs(ROOT)
sh("git -C /repo worktree prune")
pool = queue.Queue()
for i in range(jobs):
    wt = os.path.join(ROOT, "w%d" % i)
    r = sh("git -C /repo worktree add --detach %s HEAD" % wt)
    if r.returncode:
        sys.exit("cannot create worktree: " + r.stderr)
    pool.put(wt)


def one(item):
    name, prop, (kind, arg) = item
    wt = pool.get()
    try:
        sh("git reset -q --hard HEAD && git clean -fdq", cwd=wt)
        if kind == "apply":
            r = sh("git apply %s" % arg, cwd=wt)
        else:
            r = sh("git revert -n %s" % arg, cwd=wt)
        if r.returncode:
            sh("git revert --abort; git reset -q --hard HEAD", cwd=wt)
            return name, prop, None, "does not apply to HEAD any more (later commits touch the same lines)"
        b = sh("GOFLAGS=-mod=mod GOPROXY=off go build ./... && GOFLAGS=-mod=mod GOPROXY=off go build -tags verif ./...", cwd=wt)
        if b.returncode:
            return name, prop, None, "does not build on HEAD"
        env = dict(os.environ, VERIF_REPO=wt, VERIF_OUT=os.path.join(ROOT, "out-" + name))
        o = subprocess.run(["./check", prop, "--tier", tier], cwd=VERIF, env=env, capture_output=True, text=True)
        sigs = sorted(set(l.strip()[11:] for l in o.stdout.splitlines() if l.strip().startswith("signature:")))
        last = [l for l in o.stdout.splitlines() if l.startswith(prop + " ")]
        return name, prop, o.returncode, ("; ".join(sigs)[:220] if sigs else (last[-1] if last else o.stdout[-200:]))
    finally:
        sh("git reset -q --hard HEAD && git clean -fdq", cwd=wt)
        pool.put(wt)


rows = []
with ThreadPoolExecutor(jobs) as ex:
    for row in ex.map(one, items):
        rows.append(row)
        print("%-14s %-4s exit=%s  %s" % (row[0], row[1], row[2], row[3]), flush=True)
for i in range(jobs):
    sh("git -C /repo worktree remove --force %s" % os.path.join(ROOT, "w%d" % i))
sh("git -C /repo worktree prune")
shutil.rmtree(ROOT, ignore_errors=True)
json.dump([dict(item=r[0], property=r[1], exit=r[2], detail=r[3]) for r in rows],
          open(os.path.join(VERIF, "tools", "regress_%s.json" % mode), "w"), indent=1)
bad = [r for r in rows if r[2] != 1]
print("%d items, %d detected (exit 1), %d not: %s" % (len(rows), len(rows) - len(bad), len(bad), [r[0] for r in bad]))
