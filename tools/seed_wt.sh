#!/bin/bash
# seed_wt.sh <ID> <seed name, e.g. r2-1> <demo package dir | -> [tier]
# Confirms a seeded change in its scratch worktree /tmp/seed/<ID> and runs ./check <ID> against that
# worktree (VERIF_REPO), so /repo itself is never touched.  Logs in /tmp/seed/<ID>-out/<name>/.
set -u
ID=$1; NM=$2; PKG=$3; TIER=${4:-quick}
WT=/tmp/seed/$ID; SD=/tmp/seed/$ID-out/$NM
export GOFLAGS=-mod=mod GOPROXY=off
cd "$WT" || exit 2
git checkout -q -- . ; git clean -fdq
git apply "$SD/patch.diff" || { echo "$ID $NM CONFIRM: patch does not apply"; exit 1; }
go build ./... && go build -tags verif ./... || { echo "$ID $NM CONFIRM: does not build"; git checkout -q -- .; exit 1; }
if ! go test -vet=off -count=1 ./... >"$SD/base.log" 2>&1; then echo "$ID $NM CONFIRM: baseline suite fails with the change"; tail -5 "$SD/base.log"; git checkout -q -- .; exit 1; fi
if [ "$PKG" = "-" ]; then
  if bash "$SD/demo.sh" "$WT" >"$SD/demo1.log" 2>&1; then echo "$ID $NM CONFIRM: demo does NOT fail with the change"; git checkout -q -- .; exit 1; fi
  git apply -R "$SD/patch.diff"
  if ! bash "$SD/demo.sh" "$WT" >"$SD/demo2.log" 2>&1; then echo "$ID $NM CONFIRM: demo fails on the unchanged tree"; git apply "$SD/patch.diff"; git checkout -q -- .; exit 1; fi
  git apply "$SD/patch.diff"
else
  DEMO=$(ls "$SD"/*_test.go | head -1)
  RUN=$(grep -o 'func Test[A-Za-z0-9_]*' "$DEMO" | sed 's/func //' | paste -sd'|')
  cp "$DEMO" "$PKG/zz_seed_demo_test.go"
  if go test -vet=off -count=1 -run "^($RUN)\$" "./$PKG" >"$SD/demo1.log" 2>&1; then echo "$ID $NM CONFIRM: demo does NOT fail with the change"; rm -f "$PKG/zz_seed_demo_test.go"; git checkout -q -- .; exit 1; fi
  git apply -R "$SD/patch.diff"
  if ! go test -vet=off -count=1 -run "^($RUN)\$" "./$PKG" >"$SD/demo2.log" 2>&1; then echo "$ID $NM CONFIRM: demo fails on the unchanged tree"; tail -5 "$SD/demo2.log"; fi
  git apply "$SD/patch.diff"
  rm -f "$PKG/zz_seed_demo_test.go"
fi
echo "$ID $NM CONFIRM: ok"
echo "$ID $NM applied: $(git diff --stat | tail -1)"; cd /verif && VERIF_OUT=/tmp/seed/out VERIF_REPO=$WT ./check "$ID" --tier "$TIER" >"$SD/check.log" 2>&1; RC=$?
git -C "$WT" checkout -q -- .; git -C "$WT" clean -fdq
grep -E "^(VIOLATION|KNOWN-FINDING|INFRA|C[0-9]+ )" "$SD/check.log" | cut -c1-200 | head -6
echo "$ID $NM TRY: exit $RC"
