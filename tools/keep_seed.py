#!/usr/bin/env python3
"""keep_seed.py <seed dir> <property> <n> <caught_by text>  - files a confirmed seeded change under /verif/seeded/"""
import json, os, shutil, sys, glob
sd, prop, n, caught = sys.argv[1:5]
dst = "/verif/seeded/%s-%s" % (prop, n)
os.makedirs(dst, exist_ok=True)
shutil.copy(os.path.join(sd, "patch.diff"), dst)
for f in glob.glob(os.path.join(sd, "*_test.go")) + glob.glob(os.path.join(sd, "*.go")) + glob.glob(os.path.join(sd, "*.sh")):
    shutil.copy(f, os.path.join(dst, os.path.basename(f) + ".txt" if f.endswith(".go") else os.path.basename(f)))
meta = {}
try:
    meta = json.load(open(os.path.join(sd, "meta.json")))
except Exception:
    pass
meta["property"] = prop
meta["confirmed"] = "tools/confirm_seed.sh: patch applies, go build ok, baseline suite passes with the change, demo fails with it and passes without it"
meta["ran"] = "tools/try_seed.sh patch.diff %s (git -C /repo apply; ./check %s --tier quick; git -C /repo checkout -- .)" % (prop, prop)
meta["detected_by"] = caught
json.dump(meta, open(os.path.join(dst, "meta.json"), "w"), indent=1)
print("kept", dst)
