#!/bin/bash
# revert_fixes.sh : for every "fix:" commit recorded in known_findings.json, reverts it in /repo's working tree (no commit),
# runs the quick check of its property and expects a VIOLATION; restores the tree.  Shows that the checks re-find every
# repaired defect.  Usage: tools/revert_fixes.sh [property-id ...]
cd /verif
python3 - "$@" <<'P'
import json, subprocess, sys
want = set(sys.argv[1:])
k = json.load(open('/verif/known_findings.json'))
rows = []
for f in k['findings']:
    if f.get('status') != 'fixed':
        continue
    if want and f['property'] not in want:
        continue
    c, p = f['commit'], f['property']
    subprocess.run(['git', '-C', '/repo', 'checkout', '-q', '--', '.'])
    r = subprocess.run(['git', '-C', '/repo', 'revert', '-n', c], capture_output=True, text=True)
    if r.returncode != 0:
        subprocess.run(['git', '-C', '/repo', 'revert', '--abort'], capture_output=True)
        subprocess.run(['git', '-C', '/repo', 'reset', '-q', '--hard', 'HEAD'])
        rows.append((p, c, 'revert conflicts with later commits - skipped'))
        continue
    b = subprocess.run('cd /repo && GOFLAGS=-mod=mod GOPROXY=off go build ./...', shell=True, capture_output=True, text=True)
    if b.returncode != 0:
        res = 'does not build after revert - skipped'
    else:
        o = subprocess.run(['./check', p], capture_output=True, text=True)
        sigs = sorted(set(l.strip()[11:] for l in o.stdout.splitlines() if l.strip().startswith('signature:')))
        res = ('exit %d: ' % o.returncode) + ('; '.join(sigs)[:200] if sigs else o.stdout.strip().splitlines()[-1][:200])
    subprocess.run(['git', '-C', '/repo', 'reset', '-q', '--hard', 'HEAD'])
    rows.append((p, c, res))
    print(p, c, res, flush=True)
json.dump(rows, open('/tmp/revert_fixes.json', 'w'), indent=1)
P
