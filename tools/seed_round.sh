#!/bin/bash
# seed_round.sh <round name, e.g. r4> <ID...> : confirms and tries both changes of the round for every listed property
# (tools/seed_wt.sh), four properties at a time; summary on stdout, details in /tmp/seed/<ID>.res
R=$1; shift
pk() { f=$(ls /tmp/seed/$1-out/$2/*_test.go 2>/dev/null | head -1); [ -z "$f" ] && { echo "-"; return; }
       grep -h "internal/[a-z/]*" -o "$f" | head -1 | sed 's|/$||'; }
export -f pk
printf "%s\n" "$@" | xargs -P 4 -I{} bash -c 'id={}; for n in '$R'-1 '$R'-2; do /verif/tools/seed_wt.sh $id $n $(pk $id $n); done > /tmp/seed/$id.res 2>&1'
for id in "$@"; do grep -E "CONFIRM|TRY|tier=" /tmp/seed/$id.res | cut -c1-150; done
